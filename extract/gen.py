"""gen -- assemble one Verus input file for a unit from /repo's current sources.

Unit description: contracts/<unit>/unit.vspec (line oriented):

  @@unit <name>
  @@extern <crate>                      pass --extern <crate>=cache/ndu/lib<crate>.rlib
  @@raw <file>                          paste a hand written file (prelude, lemmas, canaries)
  @@item <repo-file> <kind> <name> [in "<impl header>" [#n]]
      kind: fn | enum | struct | type | const | macro_rules | impl
    @@sig            payload -> between signature and body
    @@attr           payload -> in front of the item
    @@body_start     payload -> right after the body's '{'
    @@body_end       payload -> right before the body's '}'
    @@loop <n>       payload -> between n-th loop header and its '{'
    @@loop_start <n> payload -> right after n-th loop's '{'
    @@loop_end <n>   payload -> right before n-th loop's '}'
    @@before "<text>" / @@after "<text>"
                     payload -> before / after the unique source line of the
                     item that contains <text>
    @@rewrite <Rk> <count> "<old>" => "<new>"
                     literal replacement inside the item, must apply exactly
                     <count> times; Rk is the rule id documented in DESIGN.md
    @@external_body  keep the signature, mark body trusted (listed as assumption)
    @@props C04 C12  properties whose obligation list includes this function

Everything not under a directive is copied from /repo verbatim.
The generator also returns a line map: generated line -> origin.
"""
import os
import re
import shlex
import sys

sys.path.insert(0, os.path.dirname(__file__))
import rsx
from rsx import Lost


# (repo file, function path) -> [const names]; filled by the driver after a first Verus run
# reported "cannot find value `NAME`" inside that function
AUTO_CONSTS = {}


class Block:
    def __init__(self, kind, arg, line):
        self.kind, self.arg, self.payload, self.line = kind, arg, [], line


class ItemSpec:
    def __init__(self, file, kind, name, impl, nth, line):
        self.file, self.kind, self.name, self.impl, self.nth = file, kind, name, impl, nth
        self.blocks = []
        self.rewrites = []
        self.external_body = False
        self.pub_fields = False
        self.stub_body = False
        self.split_arms = []
        self.split_all = False
        self.require_any = []
        self.props = []
        self.line = line
        self.vspec = None

    @property
    def path(self):
        return (self.impl + "::" if self.impl else "") + self.name


def _unquote(s):
    s = s.strip()
    if len(s) >= 2 and s[0] == '"' and s[-1] == '"':
        return bytes(s[1:-1], "utf-8").decode("unicode_escape").encode("latin-1", "backslashreplace").decode("utf-8") if "\\" in s and False else s[1:-1]
    return s


def parse_vspec(path, drop=None):
    """`drop`: property ids whose clauses this unit leaves out (`@@drop_props`, see below)"""
    unit = {"name": None, "externs": [], "parts": [], "path": path}
    drop = set(drop or ())
    skip_next = False
    cur_item = None
    cur_block = None
    with open(path, encoding="utf-8") as f:
        lines = f.read().split("\n")
    for ln, raw in enumerate(lines, 1):
        if raw.startswith("@@") or raw.lstrip().startswith("@@"):
            d = raw.strip()
            cur_block = None
            parts = d.split(None, 1)
            key = parts[0][2:]
            rest = parts[1] if len(parts) > 1 else ""
            # `@@when_kept C01` / `@@when_dropped C01`: the NEXT directive applies only when this unit
            # keeps / drops the listed properties' clauses (@@drop_props)
            if key in ("when_kept", "when_dropped"):
                dropped = set(rest.split()) <= drop
                skip_next = dropped if key == "when_kept" else not dropped
                continue
            if skip_next:
                skip_next = False
                continue
            if key == "unit":
                unit["name"] = rest.strip()
            elif key == "extern":
                unit["externs"].append(rest.strip())
            elif key == "raw":
                unit["parts"].append(("raw", rest.strip()))
                cur_item = None
            elif key == "include":
                sub = parse_vspec(os.path.join(os.path.dirname(os.path.dirname(path)), rest.strip()), drop)
                unit["parts"].extend(sub["parts"])
                for e in sub["externs"]:
                    if e not in unit["externs"]:
                        unit["externs"].append(e)
                cur_item = None
            elif key == "text":
                cur_block = Block("text", None, ln)
                unit["parts"].append(("text", (cur_block, path)))
                cur_item = None
            elif key == "item":
                m = re.match(r'(\S+)\s+(\S+)\s+(\S+)(?:\s+in\s+"([^"]*)"(?:\s+#(\d+))?)?\s*$', rest)
                if not m:
                    raise SystemExit("%s:%d: bad @@item" % (path, ln))
                cur_item = ItemSpec(m.group(1), m.group(2), m.group(3), m.group(4), int(m.group(5) or 0), ln)
                cur_item.vspec = path
                cur_item.props = list(unit.get("default_props", []))
                unit["parts"].append(("item", cur_item))
            elif key in ("sig", "attr", "body_start", "body_end"):
                cur_block = Block(key, None, ln)
                cur_item.blocks.append(cur_block)
            elif key in ("loop", "loop_start", "loop_end"):
                cur_block = Block(key, int(rest), ln)
                cur_item.blocks.append(cur_block)
            elif key == "loop_start_code":
                # executable text inserted right after the loop's '{' as part of rewrite <Rk>
                rid, n = rest.split()
                cur_block = Block("loop_start", int(n), ln)
                cur_block.rewrite_id = rid
                cur_item.blocks.append(cur_block)
            elif key in ("before", "after"):
                cur_block = Block(key, _unquote(rest), ln)
                cur_item.blocks.append(cur_block)
            elif key == "rewrite_ws":
                # like @@rewrite, but every blank in the pattern matches any run of whitespace
                # (including none and line breaks): the same token sequence laid out differently by
                # rustfmt still matches.  The replacement is one line; the line breaks of the matched
                # text are re-appended so that the line count is preserved.
                m = re.match(r'(\S+)\s+(\d+\??)\s+"(.*)"\s+=>\s+"(.*)"\s*$', rest)
                if not m:
                    raise SystemExit("%s:%d: bad @@rewrite_ws" % (path, ln))
                wantws = m.group(2)
                if wantws.endswith("?"):
                    if m.group(1) not in ("R28",):
                        raise SystemExit("%s:%d: optional count only allowed for R28 here" % (path, ln))
                    wantws = -int(wantws[:-1])
                pat = m.group(3).replace('\\"', '"')
                # (comments between the tokens count as whitespace)
                rx = "(?:\\s|//[^\\n]*\\n)*".join(re.escape(tok) for tok in pat.split(" "))
                cur_item.rewrites.append((m.group(1), int(wantws), re.compile(rx), m.group(4).replace('\\"', '"'), ln))
            elif key == "rewrite_re":
                # like @@rewrite, but <old> is a Python regular expression and <new> may refer to its
                # groups (\\1 ...): for rewrites that replace an unsupported ADAPTER whatever its
                # arguments are (the arguments stay the repository's text)
                m = re.match(r'(\S+)\s+(\d+[?+]?|\*)\s+"(.*)"\s+=>\s+"(.*)"\s*$', rest)
                if not m:
                    raise SystemExit("%s:%d: bad @@rewrite_re" % (path, ln))
                wantre = m.group(2)
                if wantre.endswith("+"):
                    # "N+": at least N times - for a rewrite that replaces an unsupported ADAPTER the same
                    # way wherever it occurs (splitting an or-pattern arm duplicates the call)
                    wantre = str(10 ** 6 + int(wantre[:-1]))
                if wantre == "*":
                    # any number of times, also none: only for R30 (a std adapter Verus has no model of ->
                    # an opaque stand-in about which nothing is known but a bound; the pinned tree has none)
                    if m.group(1) != "R30":
                        raise SystemExit("%s:%d: count * only allowed for R30 here" % (path, ln))
                    wantre = 10 ** 9
                elif wantre.endswith("?"):
                    # "N?": one of several spellings of the same field value (R3: a function item or
                    # an equivalent closure as the value of a fn(char) -> bool field)
                    if m.group(1) != "R3":
                        raise SystemExit("%s:%d: optional count only allowed for R3 here" % (path, ln))
                    wantre = -int(wantre[:-1])
                cur_item.rewrites.append((m.group(1), int(wantre), re.compile(m.group(3).replace('\\"', '"')), ("re", m.group(4).replace('\\"', '"')), ln))
            elif key == "rewrite":
                m = re.match(r'(\S+)\s+(\d+\??|\*)\s+"(.*)"\s+=>\s+"(.*)"\s*$', rest)
                if not m:
                    raise SystemExit("%s:%d: bad @@rewrite" % (path, ln))
                want = m.group(2)
                if want == "*":
                    # any number of times - only for R5 (error text / error constructors -> opaque
                    # value): how many error sites a function has is irrelevant to every property
                    # ... and for R18 (a comparison of two references written on the pointees: `a == b`
                    # -> `**a == **b`, the same comparison by std's reference / Box impls)
                    if m.group(1) not in ("R5", "R18"):
                        raise SystemExit("%s:%d: count * only allowed for R5 / R18" % (path, ln))
                    want = 10 ** 9
                elif want.endswith("?"):
                    # "N?": the rewrite applies N times or not at all.  Only for R5 (error
                    # *text* -> opaque value): when the text is gone there is nothing to make opaque.
                    # ... and for R29 (a dependency call -> helper with the dependency's assumed contract):
                    # when the call is gone there is nothing to replace and the body is verified as it stands
                    # ... and for R28 (two spellings of the same std adapter chain, of which one is present)
                    if m.group(1) not in ("R5", "R28", "R29", "Rclosure"):
                        raise SystemExit("%s:%d: optional count only allowed for R5 / R28 / R29" % (path, ln))
                    want = -int(want[:-1])
                # `<NL>` stands for a line break (a rewrite may span lines; it must keep their number)
                cur_item.rewrites.append((m.group(1), int(want), m.group(3).replace('\\"', '"').replace("<NL>", "\n"),
                                          m.group(4).replace('\\"', '"').replace("<NL>", "\n"), ln))
            elif key == "external_body":
                cur_item.external_body = True
            elif key == "pub_fields":
                cur_item.pub_fields = True
            elif key == "external_body_stub":
                # trusted function whose body cannot even be type-checked in the unit (missing
                # dependencies): keep the signature, replace the body by unimplemented!()
                cur_item.external_body = True
                cur_item.stub_body = True
            elif key == "require_any":
                # at least one of the listed (optional) rewrite rules must have applied in this item
                cur_item.require_any.append(rest.split())
            elif key == "split_all_or_arms":
                cur_item.split_all = True
            elif key == "split_or_arm":
                cur_item.split_arms.append((_unquote(rest), ln))
            elif key == "props":
                cur_item.props = sorted(set(cur_item.props) | set(rest.split()))
            elif key == "default_props":
                unit["default_props"] = rest.split()
            elif key == "drop_props":
                # `@@drop_props C01`: contract lines (clauses, invariants, hints) tagged ONLY with the
                # listed properties are left out of this unit and of the files it includes from here
                # on.  Only specification text is ever dropped, never repository code; the clauses
                # are discharged by the unit that does not drop them (DESIGN 2.2a).
                drop |= set(rest.split())
                unit["drop_props"] = sorted(drop)
            elif key == "end":
                cur_block = None
            else:
                raise SystemExit("%s:%d: unknown directive %s" % (path, ln, key))
        else:
            if cur_block is not None:
                # `//~block C02 ...`: every following line of this payload block carries these
                # property tags (a failing hint inside the block is attributed to exactly them)
                # (also at the end of a line, `proof { //~block C01`; `//~endblock` ends the tagging)
                if "//~endblock" in raw:
                    raw = raw.split("//~endblock", 1)[0].rstrip()
                    if not raw.strip():
                        cur_block.block_tag = None
                        continue
                    if getattr(cur_block, "block_tag", None) and "//~" not in raw:
                        raw = raw + " //~ " + cur_block.block_tag   # the closing line still belongs to the block
                    cur_block.block_tag = None
                elif "//~block" in raw:
                    cur_block.block_tag = " ".join(re.findall(r"C\d{2,3}", raw.split("//~block", 1)[1]))
                    raw = raw.split("//~block", 1)[0].rstrip()
                    if not raw.strip():
                        continue
                bt = getattr(cur_block, "block_tag", None)
                if bt and raw.strip() and "//~" not in raw:
                    raw = raw + " //~ " + bt
                if drop and "//~" in raw:
                    tags = set(re.findall(r"C\d{2,3}", raw.split("//~", 1)[1]))
                    if tags and tags <= drop:
                        # drop the clause this tagged line ends: the untagged lines before it back to
                        # the previous clause end (`,` `;` `{` `}`), comment or tagged line
                        while cur_block.payload:
                            prev = cur_block.payload[-1][0].strip()
                            if not prev or prev.startswith("//") or "//~" in prev or prev.endswith((",", ";", "{", "}")) \
                                    or prev in ("requires", "ensures", "invariant", "decreases") or prev.startswith(("requires ", "ensures ", "invariant ", "decreases ")):
                                break
                            cur_block.payload.pop()
                        continue
                cur_block.payload.append((raw, ln))
    return unit


class Out:
    """generated text with a per-line origin map"""

    def __init__(self):
        self.lines = []   # text
        self.origin = []  # (kind, file, line, fn_path)

    def add(self, text, kind, file, line0, fn=None, step=1):
        for i, l in enumerate(text.split("\n")):
            self.lines.append(l)
            self.origin.append((kind, file, line0 + i * step if line0 is not None else None, fn))

    def add_payload(self, payload, file, fn):
        for l, ln in payload:
            self.lines.append(l)
            self.origin.append(("contract", file, ln, fn))


def _split_guarded_or_arms(text, require_guard=True):
    """R12b (automatic): Verus rejects a match arm that has BOTH an or-pattern and a guard
    (`A(x) | B(x) if g => body`).  Such an arm is split into one arm per alternative with the same
    guard and the same body tokens (`A(x) if g => body  B(x) if g => body`), which is what the
    or-pattern means.  With require_guard=False (directive @@split_all_or_arms, rule R12) every
    or-pattern arm of the function is split (an or-pattern that binds by `&mut` is not supported
    either).  The copies are laid out on the arm's first line (comments dropped from the copies) so
    that the line count - and with it the map back to /repo - is preserved.
    Returns (new_text, number_of_arms_split)."""
    n_split = 0
    out = text
    pos = 0
    while True:
        mask = rsx.code_mask(out)
        arrow = -1
        j = pos
        while j < len(out) - 1:
            if mask[j] and out[j] == "=" and out[j + 1] == ">":
                arrow = j
                break
            j += 1
        if arrow < 0:
            break
        pos = arrow + 2
        # pattern (+ guard): back from `=>` to the previous arm end (`,` `{` `}` at depth 0)
        k = arrow - 1
        depth = 0
        start = -1
        while k >= 0:
            if mask[k]:
                c = out[k]
                if c in ")]}":
                    if c == "}" and depth == 0:
                        start = k + 1
                        break
                    depth += 1
                elif c in "([{":
                    if depth == 0:
                        start = k + 1
                        break
                    depth -= 1
                elif c == "," and depth == 0:
                    start = k + 1
                    break
            k -= 1
        if start < 0:
            continue
        # top-level ` if ` separates pattern and guard
        gi = -1
        depth = 0
        q = start
        while q < arrow:
            if mask[q]:
                c = out[q]
                if c in "([{":
                    depth += 1
                elif c in ")]}":
                    depth -= 1
                elif depth == 0 and out[q:q + 2] == "if" and (q == 0 or not (out[q - 1].isalnum() or out[q - 1] == "_")) \
                        and (q + 2 >= len(out) or not (out[q + 2].isalnum() or out[q + 2] == "_")):
                    gi = q
                    break
            q += 1
        if gi < 0 and require_guard:
            continue
        pend = gi if gi >= 0 else arrow
        pat = out[start:pend]
        alts, depth, cur = [], 0, ""
        for q, c in enumerate(pat):
            cm = mask[start + q]
            if cm and c in "([{":
                depth += 1
            elif cm and c in ")]}":
                depth -= 1
            if cm and c == "|" and depth == 0:
                alts.append(cur)
                cur = ""
            else:
                cur += c
        alts.append(cur)
        if len(alts) < 2 or any(not a.strip() for a in alts):
            continue
        # body: from after `=>` to the end of the arm
        b0 = arrow + 2
        while b0 < len(out) and out[b0] in " \t":
            b0 += 1
        if b0 < len(out) and out[b0] == "{":
            e = rsx.match_delim(out, mask, b0)
            b1 = e + 1
            t = b1
            while t < len(out) and out[t] in " \t":
                t += 1
            if t < len(out) and out[t] == ",":
                b1 = t + 1
        else:
            q = b0
            depth = 0
            while q < len(out):
                if mask[q]:
                    c = out[q]
                    if c in "([{":
                        depth += 1
                    elif c in ")]}":
                        if depth == 0:
                            break
                        depth -= 1
                    elif c == "," and depth == 0:
                        q += 1
                        break
                q += 1
            b1 = q

        kinds = rsx.kind_mask(out)

        def flat(a, b):
            # comments dropped, string / char literals kept
            return "".join((out[x] if kinds[x] != 0 else " ") if out[x] != "\n" else " " for x in range(a, b))
        fguard = re.sub(r"\s+", " ", flat(gi, arrow)).strip() if gi >= 0 else ""
        fbody = re.sub(r"\s+", " ", flat(b0, b1)).strip()
        if not fbody.endswith(","):
            fbody += ","
        lead = re.match(r"\s*", alts[0]).group(0)
        extra = " ".join(("%s %s => %s" % (a.strip(), fguard, fbody)).replace("  ", " ") for a in alts[:-1])
        new_first = lead + extra + " " + alts[-1].strip() + " "
        nl_lost = pat.count("\n") - new_first.count("\n")
        out = out[:start] + new_first + out[pend:b1] + ("\n" * max(nl_lost, 0)) + out[b1:]
        n_split += 1
        pos = start + len(new_first) + (b1 - pend)
    return out, n_split


def _clause_tags(blocks):
    tags = {}
    for b in blocks:
        for l, _ln in b.payload:
            if "//~" in l:
                for pid in re.findall(r"C\d{2,3}", l.split("//~", 1)[1]):
                    tags[pid] = tags.get(pid, 0) + 1
    return tags


def _visibility_rewrite(text):
    """R1: pub(crate) -> pub ; private struct fields / fns stay (same file => visible)."""
    n = len(re.findall(r"\bpub\s*\(\s*(crate|super)\s*\)", text))
    return re.sub(r"\bpub\s*\(\s*(crate|super)\s*\)", "pub", text), n


def emit_item(spec, repo, out, stats, vspec_path, cache):
    fpath = os.path.join(repo, spec.file)
    if fpath not in cache:
        try:
            with open(fpath, encoding="utf-8") as f:
                src = f.read()
        except OSError as e:
            raise Lost("cannot read %s: %s" % (spec.file, e))
        cache[fpath] = (src, rsx.code_mask(src))
    src, mask = cache[fpath]
    lo, hi, depth = 0, len(src), 0
    if spec.impl:
        # a '/'-separated container path: `mod structs/impl MidParseResult`, `trait X`, `impl ...`
        for part in [x.strip() for x in spec.impl.split("/")]:
            if part.startswith("trait "):
                blk = rsx.find_item(src, mask, "trait", part.split()[1], lo, hi, 0)
            elif part.startswith("mod "):
                blk = rsx.find_item(src, mask, "mod", part.split()[1], lo, hi, 0)
            else:
                blk = rsx.find_impl(src, mask, part, lo, hi, nth=spec.nth)
            lo, hi, depth = blk.body_open + 1, blk.end - 1, 0
    if spec.kind == "impl":
        item = rsx.find_impl(src, mask, spec.name.replace("~", " "), nth=spec.nth)
    else:
        item = rsx.find_item(src, mask, spec.kind, spec.name, lo, hi, depth)
    fn = spec.path
    # ---- R23 (automatic, driver-requested): a module-level `const NAME: T = v;` of the same
    # file that the function started to reference is copied verbatim to the start of its body
    # (Rust allows items in blocks), so that a change introducing a constant stays decidable ----
    blocks = list(spec.blocks)
    for cname in AUTO_CONSTS.get((spec.file, fn), []):
        if spec.kind != "fn" or item.body_open is None:
            raise Lost("%s: cannot hoist const %s" % (fn, cname))
        c = rsx.find_item(src, mask, "const", cname, 0, len(src), 0)
        b = Block("body_start", None, rsx.line_of(src, c.head))
        l0 = rsx.line_of(src, c.head)
        b.payload = [(l, l0 + i) for i, l in enumerate(src[c.head:c.end].split("\n"))]
        blocks.append(b)
        stats["rewrites"].setdefault("R23", 0)
        stats["rewrites"]["R23"] += 1
    # ---- collect insertion points (absolute offsets in src) ----
    inserts = {}  # offset -> list of (order, payload, newline_mode)

    def ins(off, block, mode):
        inserts.setdefault(off, []).append((block, mode))

    loops = None
    for b in blocks:
        if b.kind == "attr":
            ins(item.start, b, "line_before")
        elif b.kind == "sig":
            if item.body_open is None:
                raise Lost("%s has no body for @@sig" % fn)
            ins(item.body_open, b, "inline_before")
        elif b.kind == "body_start":
            ins(item.body_open + 1, b, "inline_after")
        elif b.kind == "body_end":
            ins(item.end - 1, b, "inline_before")
        elif b.kind in ("loop", "loop_start", "loop_end"):
            if loops is None:
                loops = rsx.find_loops(item)
            if not (1 <= b.arg <= len(loops)):
                raise Lost("%s: loop #%d not found (function has %d loops)" % (fn, b.arg, len(loops)))
            k, bo, bc = loops[b.arg - 1]
            if getattr(b, "rewrite_id", None):
                stats["rewrites"].setdefault(b.rewrite_id, 0)
                stats["rewrites"][b.rewrite_id] += 1
            if b.kind == "loop":
                ins(bo, b, "inline_before")
            elif b.kind == "loop_start":
                ins(bo + 1, b, "inline_after")
            else:
                ins(bc, b, "inline_before")
        elif b.kind in ("before", "after"):
            # unique source line containing the anchor text
            hits = []
            pos = item.start
            while True:
                j = src.find(b.arg, pos, item.end)
                if j < 0:
                    break
                hits.append(j)
                pos = j + 1
            lines_hit = sorted(set(rsx.line_of(src, j) for j in hits))
            if len(lines_hit) != 1:
                raise Lost("%s: anchor %r matches %d lines" % (fn, b.arg, len(lines_hit)))
            ls = rsx.line_start(src, hits[0])
            le = src.find("\n", hits[0])
            if le < 0:
                le = len(src)
            if b.kind == "before":
                ins(ls, b, "line_before")
            else:
                ins(le + 1, b, "line_before")
    if spec.stub_body:
        if item.body_open is None:
            raise Lost("%s has no body to stub" % fn)
        # cut the body: everything from '{' to the matching '}' is replaced
        stub_cut = (item.body_open, item.end)
    else:
        stub_cut = None
    # ---- R12: split or-pattern match arms (Verus: no or-pattern with bindings by &mut) ----
    # `A(x) | B(x) => { body }` becomes `A(x) => { body } B(x) => { body' }` where body' is the
    # same token sequence with comments dropped, written on one line so that line numbers of
    # everything else are preserved.
    edits = []  # (start, end, replacement) on src, non overlapping
    kinds = None
    for anchor, ln in spec.split_arms:
        if kinds is None:
            kinds = rsx.kind_mask(src)
        j = src.find(anchor, item.start, item.end)
        if j < 0 or src.find(anchor, j + 1, item.end) >= 0:
            raise Lost("%s: split_or_arm anchor %r not unique" % (fn, anchor))
        # pattern start = first non-space char of the line
        ls = rsx.line_start(src, j)
        ps = ls + (len(src[ls:]) - len(src[ls:].lstrip(" \t")))
        # find `=>` at depth 0
        k = ps
        d = 0
        arrow = None
        while k < item.end:
            if mask[k]:
                c = src[k]
                if c in "([{":
                    d += 1
                elif c in ")]}":
                    d -= 1
                elif d == 0 and src.startswith("=>", k):
                    arrow = k
                    break
            k += 1
        if arrow is None:
            raise Lost("%s: split_or_arm: no => after %r" % (fn, anchor))
        # alternatives split at top-level `|`
        alts = []
        cur = ps
        d = 0
        for k in range(ps, arrow):
            if mask[k]:
                c = src[k]
                if c in "([{":
                    d += 1
                elif c in ")]}":
                    d -= 1
                elif d == 0 and c == "|":
                    alts.append((cur, k))
                    cur = k + 1
        alts.append((cur, arrow))
        if len(alts) < 2:
            raise Lost("%s: split_or_arm: %r has no alternatives" % (fn, anchor))
        # body block
        b = arrow + 2
        while src[b] in " \t\n":
            b += 1
        if src[b] != "{" or not mask[b]:
            raise Lost("%s: split_or_arm: arm body is not a block" % fn)
        be = rsx.match_delim(src, mask, b) + 1
        body_one = "".join(ch for idx, ch in zip(range(b, be), src[b:be]) if kinds[idx] != 0)
        body_one = " ".join(body_one.split())
        # blank out alternatives 2.. in the pattern (keep newlines)
        for (a0, a1) in alts[1:]:
            seg = src[a0 - 1:a1]  # includes the `|`
            edits.append((a0 - 1, a1, "".join("\n" if ch == "\n" else " " for ch in seg)))
        extra = ""
        for (a0, a1) in alts[1:]:
            alt = "".join(ch for idx, ch in zip(range(a0, a1), src[a0:a1]) if kinds[idx] != 0)
            extra += " " + " ".join(alt.split()) + " => " + body_one
        edits.append((be, be, extra))
        stats["rewrites"].setdefault("R12", 0)
        stats["rewrites"]["R12"] += len(alts) - 1
    # ---- emit ----
    text_start = item.start
    line0 = rsx.line_of(src, text_start)
    # walk through item text, splitting at insertion offsets
    offs = sorted(inserts)
    pieces = []  # (kind, text/payload, srcline)
    cur = text_start
    for off in offs:
        if off < item.start or off > item.end:
            raise Lost("%s: insertion point outside item" % fn)
        pieces.append(("src", src[cur:off], rsx.line_of(src, cur)))
        for b, mode in inserts[off]:
            pieces.append(("ins", b, mode))
        cur = off
    pieces.append(("src", src[cur:item.end], rsx.line_of(src, cur)))
    if stub_cut:
        # keep only the text before the body (contract insertions at the signature included)
        new_pieces = []
        pos = text_start
        for p in pieces:
            if p[0] != "src":
                if pos <= stub_cut[0]:
                    new_pieces.append(p)
                continue
            a, bnd = pos, pos + len(p[1])
            if bnd <= stub_cut[0]:
                new_pieces.append(p)
            elif a < stub_cut[0]:
                new_pieces.append(("src", p[1][:stub_cut[0] - a], p[2]))
            pos = bnd
        new_pieces.append(("src", "{ unimplemented!() /* body not compiled in this unit: trusted */ }", rsx.line_of(src, stub_cut[0])))
        pieces = new_pieces
        stats.setdefault("stubbed_bodies", []).append(fn)
    if edits:
        # re-slice with edits applied: walk pieces again with absolute offsets
        edits.sort()
        new_pieces = []
        pos = text_start
        for p in pieces:
            if p[0] != "src":
                new_pieces.append(p)
                continue
            a, bnd = pos, pos + len(p[1])
            txt = ""
            c0 = a
            for (e0, e1, rep) in edits:
                if e0 < a or e0 > bnd or (e0 == bnd and e1 > bnd):
                    continue
                if e1 > bnd:
                    raise Lost("%s: split_or_arm edit crosses an insertion point" % fn)
                if e0 < c0:
                    continue
                txt += src[c0:e0] + rep
                c0 = e1
            txt += src[c0:bnd]
            new_pieces.append(("src", txt, p[2]))
            pos = bnd
        pieces = new_pieces
    # apply rewrites on src pieces (literal, counted over the whole item)
    counts = {}
    n12b_item = 0
    if spec.kind in ("fn", "impl"):
        n12b = 0
        for i, p in enumerate(pieces):
            if p[0] == "src":
                t2, k2 = _split_guarded_or_arms(p[1], require_guard=not spec.split_all)
                if k2:
                    pieces[i] = ("src", t2, p[2])
                    n12b += k2
        n12b_item = n12b
        if n12b:
            stats["rewrites"].setdefault("R12b", 0)
            stats["rewrites"]["R12b"] += n12b
    item_counts = {}
    for rid, want, old, new, ln in spec.rewrites:
        total = 0
        for i, p in enumerate(pieces):
            if p[0] == "src" and not isinstance(old, str):
                hits = list(old.finditer(p[1]))
                if hits:
                    total += len(hits)
                    if isinstance(new, tuple):   # @@rewrite_re: group references are expanded
                        pieces[i] = ("src", old.sub(lambda mm: mm.expand(new[1]) + "\n" * (mm.group(0).count("\n") - mm.expand(new[1]).count("\n")), p[1]), p[2])
                    else:
                        pieces[i] = ("src", old.sub(lambda mm: new + "\n" * mm.group(0).count("\n"), p[1]), p[2])
                continue
            if p[0] == "src":
                c = p[1].count(old)
                if c:
                    total += c
                    if old.count("\n") != new.count("\n"):
                        raise SystemExit("%s:%d: rewrite must preserve line count" % (vspec_path, ln))
                    pieces[i] = ("src", p[1].replace(old, new), p[2])
        # (after R12b has duplicated an arm's body a rewrite inside it applies once per copy)
        if want > 10 ** 6 and want < 10 ** 9:
            if total < want - 10 ** 6:
                raise Lost("%s: rewrite %s %r applied %d times, expected at least %d" % (fn, rid, old.pattern, total, want - 10 ** 6))
        elif total != want and not (want < 0 and total in (0, -want)) and want != 10 ** 9 and not (n12b_item and total > want > 0):
            raise Lost("%s: rewrite %s %r applied %d times, expected %d" % (fn, rid, old if isinstance(old, str) else old.pattern, total, want))
        stats["rewrites"].setdefault(rid, 0)
        stats["rewrites"][rid] += total
        item_counts[rid] = item_counts.get(rid, 0) + total
    for group in spec.require_any:
        if sum(item_counts.get(r, 0) for r in group) == 0:
            raise Lost("%s: none of the rewrites %s applied" % (fn, " / ".join(group)))
    # R6 (automatic): derive lines are dropped from extracted datatypes unless the item
    # carries its own R6 rewrite
    if spec.kind in ("enum", "struct") and not any(r[0] == "R6" for r in spec.rewrites):
        for i, p in enumerate(pieces):
            if p[0] == "src":
                t, n6 = re.subn(r"#\[derive\([^)]*\)\]", "", p[1])
                if n6:
                    pieces[i] = ("src", t, p[2])
                    stats["rewrites"].setdefault("R6", 0)
                    stats["rewrites"]["R6"] += n6
    # R1 (fields): private named fields of a struct become `pub` (Verus forbids private field
    # access in the specifications of public functions)
    if spec.pub_fields:
        for i, p in enumerate(pieces):
            if p[0] == "src":
                t, n1 = re.subn(r"(?m)^(\s+)(?!pub\b)([a-z_][A-Za-z0-9_]*\s*:\s)", r"\1pub \2", p[1])
                if n1:
                    pieces[i] = ("src", t, p[2])
                    stats["rewrites"].setdefault("R1", 0)
                    stats["rewrites"]["R1"] += n1
    # R19 (automatic): `&str` in the type of a `const` item gets the explicit `'static` lifetime
    # (elided lifetimes in constants are rejected inside verus!)
    if spec.kind == "const":
        for i, p in enumerate(pieces):
            if p[0] == "src":
                eq = p[1].find("=")
                if eq > 0:
                    head, n19 = re.subn(r"&str\b", "&'static str", p[1][:eq])
                    if n19:
                        pieces[i] = ("src", head + p[1][eq:], p[2])
                        stats["rewrites"].setdefault("R19", 0)
                        stats["rewrites"]["R19"] += n19
    # external_body: attribute in front
    if spec.external_body:
        out.add("#[verifier::external_body]", "gen", None, None, fn)
        stats["external_body"].append("%s (%s:%d)" % (fn, spec.file, item.line))
    # now write out, keeping the line map.  Source pieces may start/end mid-line;
    # we join text first and compute origins per generated line.
    buf = []       # list of (text, originkind, file, srcline or vspec line)
    for p in pieces:
        if p[0] == "src":
            t, n1 = _visibility_rewrite(p[1])
            stats["rewrites"].setdefault("R1", 0)
            stats["rewrites"]["R1"] += n1
            buf.append((t, "repo", spec.file, p[2]))
        else:
            b, mode = p[1], p[2]
            txt = "\n".join(l for l, _ in b.payload)
            buf.append(("\n" + txt + "\n", "contract", spec.vspec, b.payload[0][1] - 1 if b.payload else b.line))
    # flatten into lines
    cur_line_text = ""
    cur_origin = None
    for t, kind, file, l0 in buf:
        segs = t.split("\n")
        for i, s in enumerate(segs):
            if i > 0:
                out.lines.append(cur_line_text)
                out.origin.append(cur_origin or (kind, file, l0 + i - 1, fn))
                cur_line_text = ""
                cur_origin = None
            if s.strip() and (cur_origin is None or kind == "repo"):
                cur_origin = (kind, file, l0 + i, fn)
            cur_line_text += s
    out.lines.append(cur_line_text)
    out.origin.append(cur_origin or ("repo", spec.file, None, fn))
    stats["items"].append({"fn": fn, "kind": spec.kind, "file": spec.file, "line": item.line,
                           "props": spec.props, "external_body": spec.external_body,
                           "contract_lines": sum(len(b.payload) for b in spec.blocks),
                           # clause-level property tags (`//~ C03 C15`): property -> number of tagged lines
                           "clause_tags": _clause_tags(spec.blocks)})


def generate(unit_dir, repo, out_path):
    vspec = os.path.join(unit_dir, "unit.vspec")
    unit = parse_vspec(vspec)
    out = Out()
    stats = {"rewrites": {}, "external_body": [], "items": [], "raw": []}
    cache = {}
    out.add("// GENERATED by /verif/extract/gen.py from /repo -- do not edit", "gen", None, None)
    out.add("#![feature(allocator_api, pattern)]", "gen", None, None)
    out.add("#![allow(unused, non_snake_case, non_camel_case_types, unreachable_code, unused_parens, unused_braces, non_upper_case_globals)]", "gen", None, None)
    for kind, part in unit["parts"]:
        if kind == "text":
            blk, src_path = part
            out.add_payload(blk.payload, src_path, None)
        elif kind == "raw":
            p = os.path.join(unit_dir, part)
            if not os.path.exists(p):
                p = os.path.join(os.path.dirname(unit_dir), part)
            with open(p, encoding="utf-8") as f:
                txt = f.read().rstrip("\n")
            out.add(txt, "raw", p, 1)
            stats["raw"].append(p)
        else:
            emit_item(part, repo, out, stats, vspec, cache)
    # atomic: concurrent checks that share a unit generate the same text
    tmp = "%s.tmp.%d" % (out_path, os.getpid())
    with open(tmp, "w", encoding="utf-8") as f:
        f.write("\n".join(out.lines) + "\n")
    os.replace(tmp, out_path)
    return unit, out, stats


if __name__ == "__main__":
    u, o, s = generate(sys.argv[1], sys.argv[2], sys.argv[3])
    import json
    print(json.dumps(s["rewrites"]), len(o.lines), "lines")
