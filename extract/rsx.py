"""rsx -- minimal Rust source slicer used by the Verus extractor.

It does *not* parse Rust; it masks comments / string / char literals, matches
delimiters on the remaining "code" characters and locates items by keyword and
name.  Everything it returns is a verbatim slice of the input text.

Failure to locate anything raises Lost (the driver turns that into exit 2 /
UNDECIDED, never a VIOLATION).
"""
import re


class Lost(Exception):
    """An item, loop or anchor named by a contract could not be located."""


IDENT = re.compile(r"[A-Za-z_][A-Za-z0-9_]*")


def kind_mask(src):
    """kinds[i]: 1 code, 0 comment, 2 string / char literal"""
    return _scan(src, True)


def code_mask(src):
    """mask[i] is True iff src[i] is code (outside comments, strings, chars)."""
    return [k == 1 for k in _scan(src, True)]


def _scan(src, _kinds):
    n = len(src)
    mask = [1] * n
    i = 0
    while i < n:
        c = src[i]
        if c == "/" and i + 1 < n and src[i + 1] == "/":
            j = src.find("\n", i)
            if j < 0:
                j = n
            for k in range(i, j):
                mask[k] = 0
            i = j
            continue
        if c == "/" and i + 1 < n and src[i + 1] == "*":
            depth = 1
            j = i + 2
            while j < n and depth:
                if src.startswith("/*", j):
                    depth += 1
                    j += 2
                elif src.startswith("*/", j):
                    depth -= 1
                    j += 2
                else:
                    j += 1
            for k in range(i, j):
                mask[k] = 0
            i = j
            continue
        # raw strings r"..", r#".."#, br".."
        m = re.compile(r'b?r(#*)"').match(src, i)
        if m and (i == 0 or not (src[i - 1].isalnum() or src[i - 1] == "_")):
            hashes = m.group(1)
            close = '"' + hashes
            j = src.find(close, m.end())
            if j < 0:
                raise Lost("unterminated raw string")
            j += len(close)
            for k in range(i, j):
                mask[k] = 2
            i = j
            continue
        if c == '"' or (c == "b" and i + 1 < n and src[i + 1] == '"' and (i == 0 or not (src[i - 1].isalnum() or src[i - 1] == "_"))):
            j = i + (2 if c == "b" else 1)
            while j < n and src[j] != '"':
                if src[j] == "\\":
                    j += 1
                j += 1
            j += 1
            for k in range(i, j):
                mask[k] = 2
            i = j
            continue
        if c == "'":
            # char literal or lifetime
            # char literal: '\..' or 'x' (any single char) followed by '
            if i + 1 < n and src[i + 1] == "\\":
                j = i + 2
                while j < n and src[j] != "'":
                    j += 1
                j += 1
                for k in range(i, j):
                    mask[k] = 2
                i = j
                continue
            if i + 2 < n and src[i + 2] == "'":
                for k in range(i, i + 3):
                    mask[k] = 2
                i += 3
                continue
            # lifetime: leave as code
            i += 1
            continue
        i += 1
    return mask


OPEN = {"(": ")", "[": "]", "{": "}"}
CLOSE = {v: k for k, v in OPEN.items()}


def match_delim(src, mask, i):
    """src[i] is an opening delimiter (code); return index of its partner."""
    assert src[i] in OPEN and mask[i]
    stack = [src[i]]
    j = i + 1
    n = len(src)
    while j < n:
        if mask[j]:
            c = src[j]
            if c in OPEN:
                stack.append(c)
            elif c in CLOSE:
                if not stack or stack[-1] != CLOSE[c]:
                    raise Lost("unbalanced delimiter at offset %d" % j)
                stack.pop()
                if not stack:
                    return j
        j += 1
    raise Lost("unterminated delimiter at offset %d" % i)


def line_of(src, idx):
    return src.count("\n", 0, idx) + 1


def line_start(src, idx):
    j = src.rfind("\n", 0, idx)
    return j + 1


def code_find(src, mask, pat, lo, hi):
    """Yield match objects of regex `pat` whose start is code, in [lo,hi)."""
    for m in re.compile(pat).finditer(src, lo, hi):
        if mask[m.start()]:
            yield m


def depth_at(src, mask, lo, idx):
    """brace depth of idx relative to lo (counting only { })."""
    d = 0
    for k in range(lo, idx):
        if mask[k]:
            if src[k] == "{":
                d += 1
            elif src[k] == "}":
                d -= 1
    return d


def _expand_back(src, mask, start, lo):
    """Extend an item start backwards over attributes, doc comments and
    qualifiers that sit on the lines directly above / before it."""
    # first go to the beginning of the line if only qualifiers precede
    ls = line_start(src, start)
    prefix = src[ls:start]
    if re.fullmatch(r"\s*((pub(\s*\([^)]*\))?|const|unsafe|async|default|extern(\s*\"[^\"]*\")?)\s+)*", prefix):
        start = ls
    # then absorb preceding attribute / doc-comment lines
    while start > lo:
        prev_end = start - 1  # the '\n'
        pls = line_start(src, prev_end)
        line = src[pls:prev_end].strip()
        if line.startswith("#[") or line.startswith("///") or line.startswith("#!["):
            start = pls
        else:
            break
    return start


class Item:
    def __init__(self, src, mask, start, head, body_open, end, kind, name):
        self.src, self.mask = src, mask
        self.start = start          # first char (incl. docs / attrs)
        self.head = head            # index of the keyword (fn / enum / impl ...)
        self.body_open = body_open  # index of body '{' (None for `type X = ..;`)
        self.end = end              # one past last char
        self.kind, self.name = kind, name

    @property
    def text(self):
        return self.src[self.start:self.end]

    @property
    def line(self):
        return line_of(self.src, self.head)


def _body_open_after(src, mask, k, hi):
    """first '{' or ';' at ()/[] depth 0 after k"""
    d = 0
    angle = 0
    j = k
    while j < hi:
        if mask[j]:
            c = src[j]
            if c in "([":
                d += 1
            elif c in ")]":
                d -= 1
            elif d == 0 and c == "{":
                return j
            elif d == 0 and c == ";":
                return j
        j += 1
    raise Lost("no body found")


def find_item(src, mask, kind, name, lo=0, hi=None, depth=0):
    """kind in fn/enum/struct/type/const/static/trait/macro_rules/mod.
    The item must sit at brace depth `depth` relative to lo."""
    if hi is None:
        hi = len(src)
    if kind == "macro_rules":
        pat = r"\bmacro_rules!\s*" + re.escape(name) + r"\b"
    else:
        pat = r"\b" + kind + r"\s+" + re.escape(name) + r"\b"
    hits = []
    for m in code_find(src, mask, pat, lo, hi):
        if depth_at(src, mask, lo, m.start()) == depth:
            hits.append(m)
    if not hits:
        raise Lost("%s %s not found" % (kind, name))
    if len(hits) > 1:
        raise Lost("%s %s ambiguous (%d hits)" % (kind, name, len(hits)))
    m = hits[0]
    k = m.start()
    bo = _body_open_after(src, mask, m.end(), hi)
    if src[bo] == ";":
        end = bo + 1
        body_open = None
    else:
        end = match_delim(src, mask, bo) + 1
        body_open = bo
        # tuple structs / `struct X {..}` need no trailing ';' ; macro_rules! {} too
        if kind in ("const", "static"):
            # `const X: T = T { .. };` - the initialiser's braces are not the item's end
            j = end
            while j < hi and (src[j] in " \t\n" or not mask[j]):
                j += 1
            if j < hi and src[j] == ";":
                end = j + 1
    start = _expand_back(src, mask, k, lo)
    return Item(src, mask, start, k, body_open, end, kind, name)


def find_impl(src, mask, header, lo=0, hi=None, nth=0):
    """Locate `impl ... {` whose header text (whitespace-normalised, between
    `impl` and `{`) equals `header` (also normalised). nth selects among equals."""
    if hi is None:
        hi = len(src)
    want = " ".join(header.split())
    if not want.startswith("impl"):
        want = "impl " + want
    hits = []
    for m in code_find(src, mask, r"\bimpl\b", lo, hi):
        if depth_at(src, mask, lo, m.start()) != 0:
            continue
        try:
            bo = _body_open_after(src, mask, m.end(), hi)
        except Lost:
            continue
        if src[bo] != "{":
            continue
        # strip comments from header
        htxt = "".join(ch if mask[i] else " " for i, ch in zip(range(m.start(), bo), src[m.start():bo]))
        got = " ".join(htxt.split())
        if got == want:
            hits.append((m.start(), bo))
    if len(hits) <= nth:
        raise Lost("impl block `%s` (#%d) not found" % (want, nth))
    k, bo = hits[nth]
    end = match_delim(src, mask, bo) + 1
    start = _expand_back(src, mask, k, lo)
    return Item(src, mask, start, k, bo, end, "impl", want)


def find_loops(item):
    """Loops of a fn item in source order: list of (kw_index, body_open_index,
    body_close_index).  Loops inside nested closures/blocks are included; loops
    inside macro invocations are included too (they are ordinary tokens)."""
    src, mask = item.src, item.mask
    out = []
    if item.body_open is None:
        return out
    lo, hi = item.body_open, item.end
    for m in code_find(src, mask, r"\b(while|for|loop)\b", lo, hi):
        k = m.start()
        kw = m.group(1)
        # `for<'a>` HRTB is not a loop
        rest = src[m.end():m.end() + 2]
        if kw == "for" and rest.lstrip().startswith("<"):
            continue
        bo = _body_open_after(src, mask, m.end(), hi)
        if src[bo] != "{":
            continue
        out.append((k, bo, match_delim(src, mask, bo)))
    return out
