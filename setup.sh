#!/bin/sh
# Build everything the checks need, offline, from files on disk only.
set -e
cd "$(dirname "$0")"
./check --setup
