// ---- hand written specifications for unit lexical_parser ----
// nar_dev_utils' dictionary types are opaque; their matching functions are *provided* trait
// methods, for which Verus takes no assume_specification.  The three local traits below shadow
// the glob import `nar_dev_utils::{PrefixMatch, SuffixMatch, StartsWithStr}`; each impl forwards
// to the real nar_dev_utils method (external_body) and carries the ASSUMED contract (A2):
//   * match_prefix_char_slice / match_suffix_char_slice return a dictionary entry whose key is
//     an EXACT prefix / suffix of the slice (they compare through String::starts_with/ends_with);
//   * [char]::starts_with_str is LENIENT: it also returns true when the slice ends before the
//     needle does (this is what made the unfixed parser index past the end, finding F5).
// (the external type specifications of the three dictionary types live in common/lexformat.vspec)

pub open spec fn is_prefix_of(p: Seq<char>, s: Seq<char>) -> bool {
    p.len() <= s.len() && s.subrange(0, p.len() as int) == p
}
pub open spec fn is_suffix_of(p: Seq<char>, s: Seq<char>) -> bool {
    p.len() <= s.len() && s.subrange(s.len() - p.len(), s.len() as int) == p
}
/// see lenient note above
pub open spec fn lenient_prefix(s: Seq<char>, kw: Seq<char>) -> bool {
    kw.len() == 0 || (s.len() > 0 && forall|j: int| 0 <= j < kw.len() && j < s.len() ==> s[j] == kw[j])
}

/// the text a dictionary entry is matched by: the entry itself for plain keywords, the left /
/// right bracket for bracket pairs
pub trait KeyOf {
    spec fn pre(&self) -> Seq<char>;
    spec fn suf(&self) -> Seq<char>;
}
impl KeyOf for String {
    open spec fn pre(&self) -> Seq<char> { self@ }
    open spec fn suf(&self) -> Seq<char> { self@ }
}
impl KeyOf for (String, String) {
    open spec fn pre(&self) -> Seq<char> { self.0@ }
    open spec fn suf(&self) -> Seq<char> { self.1@ }
}
/// A7 (language guarantee): a slice never has more than isize::MAX elements
#[verifier::external_body]
pub proof fn axiom_slice_len_bound(s: &[char])
    ensures s@.len() <= isize::MAX
{}
pub trait PrefixMatch<T: KeyOf> {
    /// "no key of this dictionary is the empty string" (needed for progress of the recursion)
    spec fn keys_nonempty(&self) -> bool;
    /// the entry a lookup selects is a function of the dictionary and the text (A2/A3)
    spec fn pre_matched(&self, s: Seq<char>) -> Option<T>;
    fn match_prefix_char_slice(&self, to_match: &[char]) -> (r: Option<&T>)
        ensures r matches Some(t) ==> is_prefix_of(t.pre(), to_match@)
            && (self.keys_nonempty() ==> t.pre().len() > 0),
            r matches Some(t) ==> self.pre_matched(to_match@) == Some(*t),
            r is None ==> self.pre_matched(to_match@) is None;
}
pub trait SuffixMatch<T: KeyOf> {
    spec fn suf_matched(&self, s: Seq<char>) -> Option<T>;
    fn match_suffix_char_slice(&self, to_match: &[char]) -> (r: Option<&T>)
        ensures r matches Some(t) ==> is_suffix_of(t.suf(), to_match@),
            r matches Some(t) ==> self.suf_matched(to_match@) == Some(*t),
            r is None ==> self.suf_matched(to_match@) is None;
}
/// A2: `<[char]>::starts_with` / `ends_with` compare exactly (vstd ties the result to an
/// uninterpreted-for-us `spec_slice_starts_with` under `char: obeys_eq_spec`; this states what
/// std documents: "returns true if needle is a prefix / suffix of the slice")
#[verifier::external_body]
pub proof fn axiom_char_eq()
    ensures <char as vstd::std_specs::cmp::PartialEqSpec>::obeys_eq_spec(),
{}
#[verifier::external_body]
pub broadcast proof fn axiom_char_slice_starts_with(a: &[char], b: &[char])
    ensures
        #[trigger] vstd::std_specs::slice::spec_slice_starts_with(a, b) == is_prefix_of(b@, a@),
{}
#[verifier::external_body]
pub broadcast proof fn axiom_char_slice_ends_with(a: &[char], b: &[char])
    ensures
        #[trigger] vstd::std_specs::slice::spec_slice_ends_with(a, b) == is_suffix_of(b@, a@),
{}
/// C03/C15 segmentation reference, prefix side ("budget"): scanning from `start`, `rb` is the
/// right border of the FIRST occurrence of the closing bracket `right`
pub open spec fn first_close_from(env: Seq<char>, start: int, right: Seq<char>, rb: int) -> bool {
    &&& start + right.len() <= rb <= env.len()
    &&& is_prefix_of(right, env.subrange(rb - right.len(), env.len() as int))
    &&& forall|j: int| start <= j < rb - right.len() ==> !is_prefix_of(right, #[trigger] env.subrange(j, env.len() as int))
}
/// suffix side ("truth", "stamp"): scanning leftwards from `end`, `lb` is the left border of
/// the LAST occurrence of the opening bracket `left` that ends at or before `end`
pub open spec fn last_open_before(env: Seq<char>, end: int, left: Seq<char>, lb: int) -> bool {
    &&& 0 <= lb && lb + left.len() <= end <= env.len()
    &&& is_suffix_of(left, env.subrange(0, lb + left.len()))
    &&& forall|j: int| lb + left.len() < j <= end ==> !is_suffix_of(left, #[trigger] env.subrange(0, j))
}
pub trait StartsWithStr {
    spec fn chars_of(&self) -> Seq<char>;
    fn starts_with_str(&self, needle: &str) -> (r: bool)
        ensures r == lenient_prefix(self.chars_of(), needle@);
}
impl StartsWithStr for [char] {
    open spec fn chars_of(&self) -> Seq<char> { self@ }
    #[verifier::external_body]
    fn starts_with_str(&self, needle: &str) -> (r: bool) { nar_dev_utils::StartsWithStr::starts_with_str(self, needle) }
}
impl PrefixMatch<String> for nar_dev_utils::PrefixMatchDict {
    uninterp spec fn keys_nonempty(&self) -> bool;
    uninterp spec fn pre_matched(&self, s: Seq<char>) -> Option<String>;
    #[verifier::external_body]
    fn match_prefix_char_slice(&self, to_match: &[char]) -> (r: Option<&String>) { nar_dev_utils::PrefixMatch::match_prefix_char_slice(self, to_match) }
}
impl PrefixMatch<(String, String)> for nar_dev_utils::BiFixMatchDictPair {
    uninterp spec fn keys_nonempty(&self) -> bool;
    uninterp spec fn pre_matched(&self, s: Seq<char>) -> Option<(String, String)>;
    #[verifier::external_body]
    fn match_prefix_char_slice(&self, to_match: &[char]) -> (r: Option<&(String, String)>) { nar_dev_utils::PrefixMatch::match_prefix_char_slice(self, to_match) }
}
impl PrefixMatch<(String, String)> for (String, String) {
    open spec fn keys_nonempty(&self) -> bool { self.0@.len() > 0 }
    uninterp spec fn pre_matched(&self, s: Seq<char>) -> Option<(String, String)>;
    #[verifier::external_body]
    fn match_prefix_char_slice(&self, to_match: &[char]) -> (r: Option<&(String, String)>) { nar_dev_utils::PrefixMatch::match_prefix_char_slice(self, to_match) }
}
impl SuffixMatch<String> for nar_dev_utils::SuffixMatchDict {
    uninterp spec fn suf_matched(&self, s: Seq<char>) -> Option<String>;
    #[verifier::external_body]
    fn match_suffix_char_slice(&self, to_match: &[char]) -> (r: Option<&String>) { nar_dev_utils::SuffixMatch::match_suffix_char_slice(self, to_match) }
}
impl SuffixMatch<(String, String)> for nar_dev_utils::SuffixMatchDictPair<String> {
    uninterp spec fn suf_matched(&self, s: Seq<char>) -> Option<(String, String)>;
    #[verifier::external_body]
    fn match_suffix_char_slice(&self, to_match: &[char]) -> (r: Option<&(String, String)>) { nar_dev_utils::SuffixMatch::match_suffix_char_slice(self, to_match) }
}
impl SuffixMatch<(String, String)> for (String, String) {
    uninterp spec fn suf_matched(&self, s: Seq<char>) -> Option<(String, String)>;
    #[verifier::external_body]
    fn match_suffix_char_slice(&self, to_match: &[char]) -> (r: Option<&(String, String)>) { nar_dev_utils::SuffixMatch::match_suffix_char_slice(self, to_match) }
}

/// the last-opening-bracket fact found on the cut environment `env[..end]` holds on `env`
pub proof fn lemma_last_open_prefix(env: Seq<char>, end: int, left: Seq<char>, lb: int)
    requires 0 <= end <= env.len(), last_open_before(env.subrange(0, end), end, left, lb)
    ensures last_open_before(env, end, left, lb)
{
    let cut = env.subrange(0, end);
    assert forall|j: int| lb + left.len() < j <= end implies !is_suffix_of(left, #[trigger] env.subrange(0, j)) by {
        assert(cut.subrange(0, j) =~= env.subrange(0, j));
    }
    assert(cut.subrange(0, lb + left.len()) =~= env.subrange(0, lb + left.len()));
}

/// R16: `String::from_iter(<char slice>)` -> this helper (assumed: builds the string of those chars)
#[verifier::external_body]
pub fn vx_string_from_chars(s: &[char]) -> (r: String)
    ensures r@ == s@
{ String::from_iter(s) }

/// side conditions on a lexical format that the recursive segmentation needs to make progress
pub open spec fn lex_format_wf(f: &NarseseFormat) -> bool {
    // opening brackets of sets, compounds and statements are non-empty keywords
    &&& f.compound.set_brackets.keys_nonempty()
    &&& f.compound.brackets.0@.len() > 0
    &&& f.statement.brackets.0@.len() > 0
}
