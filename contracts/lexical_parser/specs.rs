// ---- hand written specifications for unit lexical_parser ----
// nar_dev_utils' dictionary types are opaque; their matching functions are *provided* trait
// methods, for which Verus takes no assume_specification.  The three local traits below shadow
// the glob import `nar_dev_utils::{PrefixMatch, SuffixMatch, StartsWithStr}`; each impl forwards
// to the real nar_dev_utils method (external_body) and carries the ASSUMED contract (A2):
//   * match_prefix_char_slice / match_suffix_char_slice return a dictionary entry whose key is
//     an EXACT prefix / suffix of the slice (they compare through String::starts_with/ends_with);
//   * [char]::starts_with_str is LENIENT: it also returns true when the slice ends before the
//     needle does (this is what made the unfixed parser index past the end, finding F5).
// (the external type specifications of the three dictionary types live in common/lexformat.vspec)

pub open spec fn is_prefix_of(p: Seq<char>, s: Seq<char>) -> bool {
    p.len() <= s.len() && s.subrange(0, p.len() as int) == p
}
pub open spec fn is_suffix_of(p: Seq<char>, s: Seq<char>) -> bool {
    p.len() <= s.len() && s.subrange(s.len() - p.len(), s.len() as int) == p
}
/// see lenient note above
pub open spec fn lenient_prefix(s: Seq<char>, kw: Seq<char>) -> bool {
    kw.len() == 0 || (s.len() > 0 && forall|j: int| 0 <= j < kw.len() && j < s.len() ==> s[j] == kw[j])
}

/// the text a dictionary entry is matched by: the entry itself for plain keywords, the left /
/// right bracket for bracket pairs
pub trait KeyOf {
    spec fn pre(&self) -> Seq<char>;
    spec fn suf(&self) -> Seq<char>;
}
impl KeyOf for String {
    open spec fn pre(&self) -> Seq<char> { self@ }
    open spec fn suf(&self) -> Seq<char> { self@ }
}
impl KeyOf for (String, String) {
    open spec fn pre(&self) -> Seq<char> { self.0@ }
    open spec fn suf(&self) -> Seq<char> { self.1@ }
}
/// A7 (language guarantee): a slice never has more than isize::MAX elements
#[verifier::external_body]
pub proof fn axiom_slice_len_bound(s: &[char])
    ensures s@.len() <= isize::MAX
{}
pub trait PrefixMatch<T: KeyOf> {
    /// "no key of this dictionary is the empty string" (needed for progress of the recursion)
    spec fn keys_nonempty(&self) -> bool;
    /// the entry a lookup selects is a function of the dictionary and the text (A2/A3)
    spec fn pre_matched(&self, s: Seq<char>) -> Option<T>;
    /// a "dictionary" that is a single bracket pair has that pair as its only entry
    spec fn only_entry(&self) -> Option<T>;
    fn match_prefix_char_slice(&self, to_match: &[char]) -> (r: Option<&T>)
        ensures r matches Some(t) ==> is_prefix_of(t.pre(), to_match@)
            && (self.keys_nonempty() ==> t.pre().len() > 0),
            r matches Some(t) ==> self.pre_matched(to_match@) == Some(*t),
            r is None ==> self.pre_matched(to_match@) is None,
            r matches Some(t) ==> (self.only_entry() matches Some(e) ==> *t == e),
            // a single bracket pair matches exactly when its opening bracket is a prefix
            self.only_entry() matches Some(e) ==> (r is Some <==> is_prefix_of(e.pre(), to_match@));
}
pub trait SuffixMatch<T: KeyOf> {
    spec fn suf_matched(&self, s: Seq<char>) -> Option<T>;
    /// a "dictionary" that is a single bracket pair has that pair as its only entry
    spec fn only_entry_s(&self) -> Option<T>;
    fn match_suffix_char_slice(&self, to_match: &[char]) -> (r: Option<&T>)
        ensures r matches Some(t) ==> is_suffix_of(t.suf(), to_match@),
            r matches Some(t) ==> self.suf_matched(to_match@) == Some(*t),
            r is None ==> self.suf_matched(to_match@) is None,
            r matches Some(t) ==> (self.only_entry_s() matches Some(e) ==> *t == e),
            // a single bracket pair matches exactly when its closing bracket is a suffix
            self.only_entry_s() matches Some(e) ==> (r is Some <==> is_suffix_of(e.suf(), to_match@));
}
/// A2: `<[char]>::starts_with` / `ends_with` compare exactly (vstd ties the result to an
/// uninterpreted-for-us `spec_slice_starts_with` under `char: obeys_eq_spec`; this states what
/// std documents: "returns true if needle is a prefix / suffix of the slice")
#[verifier::external_body]
pub proof fn axiom_char_eq()
    ensures <char as vstd::std_specs::cmp::PartialEqSpec>::obeys_eq_spec(),
{}
#[verifier::external_body]
pub broadcast proof fn axiom_char_slice_starts_with(a: &[char], b: &[char])
    ensures
        #[trigger] vstd::std_specs::slice::spec_slice_starts_with(a, b) == is_prefix_of(b@, a@),
{}
#[verifier::external_body]
pub broadcast proof fn axiom_char_slice_ends_with(a: &[char], b: &[char])
    ensures
        #[trigger] vstd::std_specs::slice::spec_slice_ends_with(a, b) == is_suffix_of(b@, a@),
{}
/// C03/C15 segmentation reference, prefix side ("budget"): scanning from `start`, `rb` is the
/// right border of the FIRST occurrence of the closing bracket `right`
pub open spec fn first_close_from(env: Seq<char>, start: int, right: Seq<char>, rb: int) -> bool {
    &&& start + right.len() <= rb <= env.len()
    &&& is_prefix_of(right, env.subrange(rb - right.len(), env.len() as int))
    &&& forall|j: int| start <= j < rb - right.len() ==> !is_prefix_of(right, #[trigger] env.subrange(j, env.len() as int))
}
/// suffix side ("truth", "stamp"): scanning leftwards from `end`, `lb` is the left border of
/// the LAST occurrence of the opening bracket `left` that ends at or before `end`
pub open spec fn last_open_before(env: Seq<char>, end: int, left: Seq<char>, lb: int) -> bool {
    &&& 0 <= lb && lb + left.len() <= end <= env.len()
    &&& is_suffix_of(left, env.subrange(0, lb + left.len()))
    &&& forall|j: int| lb + left.len() < j <= end ==> !is_suffix_of(left, #[trigger] env.subrange(0, j))
}
pub trait StartsWithStr {
    spec fn chars_of(&self) -> Seq<char>;
    fn starts_with_str(&self, needle: &str) -> (r: bool)
        ensures r == lenient_prefix(self.chars_of(), needle@);
}
impl StartsWithStr for [char] {
    open spec fn chars_of(&self) -> Seq<char> { self@ }
    #[verifier::external_body]
    fn starts_with_str(&self, needle: &str) -> (r: bool) { nar_dev_utils::StartsWithStr::starts_with_str(self, needle) }
}
impl PrefixMatch<String> for nar_dev_utils::PrefixMatchDict {
    uninterp spec fn keys_nonempty(&self) -> bool;
    uninterp spec fn pre_matched(&self, s: Seq<char>) -> Option<String>;
    open spec fn only_entry(&self) -> Option<String> { None }
    #[verifier::external_body]
    fn match_prefix_char_slice(&self, to_match: &[char]) -> (r: Option<&String>) { nar_dev_utils::PrefixMatch::match_prefix_char_slice(self, to_match) }
}
impl PrefixMatch<(String, String)> for nar_dev_utils::BiFixMatchDictPair {
    uninterp spec fn keys_nonempty(&self) -> bool;
    uninterp spec fn pre_matched(&self, s: Seq<char>) -> Option<(String, String)>;
    open spec fn only_entry(&self) -> Option<(String, String)> { None }
    #[verifier::external_body]
    fn match_prefix_char_slice(&self, to_match: &[char]) -> (r: Option<&(String, String)>) { nar_dev_utils::PrefixMatch::match_prefix_char_slice(self, to_match) }
}
impl PrefixMatch<(String, String)> for (String, String) {
    open spec fn keys_nonempty(&self) -> bool { self.0@.len() > 0 }
    /// a single pair is its own only entry: it matches exactly when its opening text is a prefix
    open spec fn pre_matched(&self, s: Seq<char>) -> Option<(String, String)> { if is_prefix_of(self.0@, s) { Some(*self) } else { None } }
    open spec fn only_entry(&self) -> Option<(String, String)> { Some(*self) }
    #[verifier::external_body]
    fn match_prefix_char_slice(&self, to_match: &[char]) -> (r: Option<&(String, String)>) { nar_dev_utils::PrefixMatch::match_prefix_char_slice(self, to_match) }
}
impl SuffixMatch<String> for nar_dev_utils::SuffixMatchDict {
    uninterp spec fn suf_matched(&self, s: Seq<char>) -> Option<String>;
    open spec fn only_entry_s(&self) -> Option<String> { None }
    #[verifier::external_body]
    fn match_suffix_char_slice(&self, to_match: &[char]) -> (r: Option<&String>) { nar_dev_utils::SuffixMatch::match_suffix_char_slice(self, to_match) }
}
impl SuffixMatch<(String, String)> for nar_dev_utils::SuffixMatchDictPair<String> {
    uninterp spec fn suf_matched(&self, s: Seq<char>) -> Option<(String, String)>;
    open spec fn only_entry_s(&self) -> Option<(String, String)> { None }
    #[verifier::external_body]
    fn match_suffix_char_slice(&self, to_match: &[char]) -> (r: Option<&(String, String)>) { nar_dev_utils::SuffixMatch::match_suffix_char_slice(self, to_match) }
}
impl SuffixMatch<(String, String)> for (String, String) {
    open spec fn suf_matched(&self, s: Seq<char>) -> Option<(String, String)> { if is_suffix_of(self.1@, s) { Some(*self) } else { None } }
    open spec fn only_entry_s(&self) -> Option<(String, String)> { Some(*self) }
    #[verifier::external_body]
    fn match_suffix_char_slice(&self, to_match: &[char]) -> (r: Option<&(String, String)>) { nar_dev_utils::SuffixMatch::match_suffix_char_slice(self, to_match) }
}

/// the last-opening-bracket fact found on the cut environment `env[..end]` holds on `env`
pub proof fn lemma_last_open_prefix(env: Seq<char>, end: int, left: Seq<char>, lb: int)
    requires 0 <= end <= env.len(), last_open_before(env.subrange(0, end), end, left, lb)
    ensures last_open_before(env, end, left, lb)
{
    let cut = env.subrange(0, end);
    assert forall|j: int| lb + left.len() < j <= end implies !is_suffix_of(left, #[trigger] env.subrange(0, j)) by {
        assert(cut.subrange(0, j) =~= env.subrange(0, j));
    }
    assert(cut.subrange(0, lb + left.len()) =~= env.subrange(0, lb + left.len()));
}

/// R16: `String::from_iter(<char slice>)` -> this helper (assumed: builds the string of those chars)
#[verifier::external_body]
pub fn vx_string_from_chars(s: &[char]) -> (r: String)
    ensures r@ == s@
{ String::from_iter(s) }

/// side conditions on a lexical format that the recursive segmentation needs to make progress
pub open spec fn lex_format_wf(f: &NarseseFormat) -> bool {
    // opening brackets of sets, compounds and statements are non-empty keywords
    &&& f.compound.set_brackets.keys_nonempty()
    &&& f.compound.brackets.0@.len() > 0
    &&& f.statement.brackets.0@.len() > 0
}

// ------------------------------------------------------------------------------------------
// C03 (lexical side): node-by-node shape of what the recursive term segmentation returns.
// `seg(f, env, t, n)` stands for "segment_term on the text `env` may return the term t and the
// length n": the INDUCTIVE relation generated by the four node shapes below (introduction rule
// only: axiom_seg_intro).  It pins down WHICH slice every component is parsed from, in which
// order, where the keyword of the node is looked up and in which dictionary.
// ------------------------------------------------------------------------------------------
pub uninterp spec fn seg(f: &NarseseFormat, env: Seq<char>, t: Term, n: int) -> bool;
#[verifier::external_body]
pub proof fn axiom_seg_intro(f: &NarseseFormat, env: Seq<char>, t: Term, n: int)
    requires lex_atom_node(f, env, t, n) || lex_stmt_node(f, env, t, n)
        || lex_list_node(f, env, t, n)
    ensures seg(f, env, t, n)
{}
pub open spec fn tail(env: Seq<char>, i: int) -> Seq<char> { env.subrange(i, env.len() as int) }
pub open spec fn min_int(a: int, b: int) -> int { if a <= b { a } else { b } }
/// atom <- prefix name: the prefix is the dictionary entry matched at the start, the name is the
/// maximal run of identifier characters that does not run into a copula
pub open spec fn lex_atom_node(f: &NarseseFormat, env: Seq<char>, t: Term, n: int) -> bool {
    t matches Term::Atom { prefix, name }
    && f.atom.prefixes.pre_matched(env) == Some(prefix)
    && name@ == env.subrange(prefix@.len() as int, n)
    && atom_scan(f, env, prefix@.len() as int, n)
}
/// statement <- '<' subject copula predicate '>': the subject is parsed right after the opening
/// bracket, the copula is the entry of the COPULA dictionary matched right after the subject, the
/// predicate follows it, then the closing bracket (leniently: it may be cut off by the end)
pub open spec fn lex_stmt_node(f: &NarseseFormat, env: Seq<char>, t: Term, n: int) -> bool {
    t matches Term::Statement { copula, subject, predicate }
    && exists|sl: int, ps: int, pl: int|
        #![trigger seg(f, tail(env, f.statement.brackets.0@.len() as int), *subject, sl), seg(f, tail(env, ps), *predicate, pl)]
        f.statement.brackets.pre_matched(env) is Some
        && seg(f, tail(env, f.statement.brackets.0@.len() as int), *subject, sl)
        && (f.statement.copulas.pre_matched(tail(env, f.statement.brackets.0@.len() + sl)) matches Some(k) && k@ == copula@)
        && ps == f.statement.brackets.0@.len() + sl + copula@.len()
        && seg(f, tail(env, ps), *predicate, pl)
        && lenient_prefix(tail(env, ps + pl), f.statement.brackets.1@)
        && n == min_int(ps + pl + f.statement.brackets.1@.len(), env.len() as int)
}
/// where the next component starts when the cursor is at p: one separator is skipped if it
/// stands there (leniently, clamped to the end of the text)
pub open spec fn sep_skip(f: &NarseseFormat, env: Seq<char>, p: int) -> int {
    if lenient_prefix(tail(env, p), f.compound.separator@) { min_int(p + f.compound.separator@.len(), env.len() as int) } else { p }
}
/// (trigger marker: a recursive call cannot serve as a quantifier trigger)
pub open spec fn vx_mark(p: int) -> bool { true }
/// the listed terms, parsed one after the other from `start`, end at `pos`: before every term
/// (the first one of a set excepted: `first_plain`) the closing bracket is NOT at the cursor and
/// one separator is skipped if present
pub open spec fn lex_items(f: &NarseseFormat, env: Seq<char>, right: Seq<char>, first_plain: bool, start: int, terms: Seq<Term>, pos: int) -> bool
    decreases terms.len()
{
    if terms.len() == 0 { pos == start }
    else {
        exists|prev: int, q: int, ln: int|
            #![trigger vx_mark(prev), seg(f, tail(env, q), terms.last(), ln)]
            vx_mark(prev) && lex_items(f, env, right, first_plain, start, terms.drop_last(), prev)
            && seg(f, tail(env, q), terms.last(), ln)
            && pos == q + ln
            && (if first_plain && terms.len() == 1 { q == prev }
                else { !lenient_prefix(tail(env, prev), right) && q == sep_skip(f, env, prev) })
    }
}
/// compound <- '(' connecter (sep? term)* ')' with the connecter looked up in the CONNECTER
/// dictionary right after the opening bracket; set <- left term (sep? term)* right with the
/// bracket pair looked up in the set-bracket dictionary
pub open spec fn lex_list_node(f: &NarseseFormat, env: Seq<char>, t: Term, n: int) -> bool {
    match t {
        Term::Compound { connecter, terms } =>
            f.compound.brackets.pre_matched(env) is Some
            && (f.compound.connecters.pre_matched(tail(env, f.compound.brackets.0@.len() as int)) matches Some(k) && k@ == connecter@)
            && exists|st: int, pos: int| st == f.compound.brackets.0@.len() + connecter@.len()
                && #[trigger] lex_items(f, env, f.compound.brackets.1@, false, st, terms@, pos)
                && lenient_prefix(tail(env, pos), f.compound.brackets.1@)
                && n == min_int(pos + f.compound.brackets.1@.len(), env.len() as int),
        Term::Set { left_bracket, terms, right_bracket } =>
            (f.compound.set_brackets.pre_matched(env) matches Some(p) && p.0@ == left_bracket@ && p.1@ == right_bracket@)
            && terms@.len() >= 1
            && exists|pos: int| #[trigger] lex_items(f, env, right_bracket@, true, left_bracket@.len() as int, terms@, pos)
                && lenient_prefix(tail(env, pos), right_bracket@)
                && n == min_int(pos + right_bracket@.len(), env.len() as int),
        _ => false,
    }
}
/// one more parsed term extends the list
pub proof fn lemma_lex_items_push(f: &NarseseFormat, env: Seq<char>, right: Seq<char>, first_plain: bool, start: int, terms: Seq<Term>, prev: int, q: int, t: Term, ln: int)
    requires
        lex_items(f, env, right, first_plain, start, terms, prev),
        seg(f, tail(env, q), t, ln),
        if first_plain && terms.len() == 0 { q == prev } else { !lenient_prefix(tail(env, prev), right) && q == sep_skip(f, env, prev) },
    ensures lex_items(f, env, right, first_plain, start, terms.push(t), q + ln)
{
    let nt = terms.push(t);
    assert(nt.drop_last() =~= terms);
    assert(nt.last() == t);
    assert(vx_mark(prev));
    assert(lex_items(f, env, right, first_plain, start, nt.drop_last(), prev));
    assert(seg(f, tail(env, q), nt.last(), ln));
}

// ------------------------------------------------------------------------------------------
// C02 (term level): the recursive term segmentation INVERTS the lexical formatter's layout.
// `ns_k(f, t, rest)` is the text of term t as the lexical formatter lays it out (lex_text, unit
// lex_formatter) with the inter-token spaces removed (what idealize_env leaves of it), followed by
// the text `rest` - written in continuation style so that peeling a token off the front never needs
// re-association.  `rt_term(f, t, rest)` collects, node by node, the hypotheses of the property
// ("strings drawn from the format's own vocabulary, names that contain no keyword"): every
// dictionary lookup the parser performs on this text selects the term's own keyword, names consist
// of identifier characters and stop before `rest`, closing brackets are not mistaken for
// separators, compounds and sets have at least one component (the README grammar's rule; a
// component-free compound is laid out as `(&, )`, which no parser of that grammar accepts).
// The contract on segment_term then reads: on such a text the parser returns exactly t (field for
// field, `term_eqv`) and the number of characters of t's text.
// ------------------------------------------------------------------------------------------
pub open spec fn ns_k(f: &NarseseFormat, t: Term, rest: Seq<char>) -> Seq<char>
    decreases t, 0nat
{
    match t {
        Term::Atom { prefix, name } => prefix@ + (name@ + rest),
        Term::Compound { connecter, terms } =>
            f.compound.brackets.0@ + (connecter@ + items_k(f, terms, 0, false, f.compound.brackets.1@, rest)),
        Term::Set { left_bracket, terms, right_bracket } =>
            left_bracket@ + items_k(f, terms, 0, true, right_bracket@, rest),
        Term::Statement { copula, subject, predicate } =>
            f.statement.brackets.0@ + ns_k(f, *subject, copula@ + ns_k(f, *predicate, f.statement.brackets.1@ + rest)),
    }
}
/// components k.. of a component list, each preceded by the separator (the first one of a set
/// excepted: `plain`), then the closing bracket, then `rest`
pub open spec fn items_k(f: &NarseseFormat, v: Vec<Term>, k: nat, plain: bool, right: Seq<char>, rest: Seq<char>) -> Seq<char>
    decreases v, v@.len() - k
{
    if k >= v@.len() { right + rest }
    else if plain && k == 0 { ns_k(f, v@[k as int], items_k(f, v, k + 1, plain, right, rest)) }
    else { f.compound.separator@ + ns_k(f, v@[k as int], items_k(f, v, k + 1, plain, right, rest)) }
}
/// field-for-field equality of lexical terms (strings compared by their characters)
pub open spec fn term_eqv(a: Term, b: Term) -> bool
    decreases a, 0nat
{
    match a {
        Term::Atom { prefix, name } => b matches Term::Atom { prefix: p2, name: n2 } && prefix@ == p2@ && name@ == n2@,
        Term::Compound { connecter, terms } => b matches Term::Compound { connecter: c2, terms: t2 }
            && connecter@ == c2@ && terms@.len() == t2@.len() && terms_eqv(terms, t2@, terms@.len()),
        Term::Set { left_bracket, terms, right_bracket } => b matches Term::Set { left_bracket: l2, terms: t2, right_bracket: r2 }
            && left_bracket@ == l2@ && right_bracket@ == r2@ && terms@.len() == t2@.len() && terms_eqv(terms, t2@, terms@.len()),
        Term::Statement { copula, subject, predicate } => b matches Term::Statement { copula: c2, subject: s2, predicate: p2 }
            && copula@ == c2@ && term_eqv(*subject, *s2) && term_eqv(*predicate, *p2),
    }
}
/// the first n components are pairwise term_eqv
pub open spec fn terms_eqv(v: Vec<Term>, w: Seq<Term>, n: nat) -> bool
    decreases v, n
{
    if n == 0 { true } else if n > v@.len() || n > w.len() { false }
    else { terms_eqv(v, w, (n - 1) as nat) && term_eqv(v@[n - 1], w[n - 1]) }
}
/// hypotheses of the round trip for term t followed by `rest` (see the header comment)
pub open spec fn rt_term(f: &NarseseFormat, t: Term, rest: Seq<char>) -> bool
    decreases t, 0nat
{
    let env = ns_k(f, t, rest);
    match t {
        Term::Atom { prefix, name } =>
            // not taken for a set, a compound or a statement
            f.compound.set_brackets.pre_matched(env) is None
            && !is_prefix_of(f.compound.brackets.0@, env)
            && !is_prefix_of(f.statement.brackets.0@, env)
            // the prefix dictionary selects the atom's own prefix
            && (f.atom.prefixes.pre_matched(env) matches Some(p) && p@ == prefix@)
            && prefix@.len() + name@.len() > 0
            // the name consists of identifier characters, no copula starts inside it ...
            && (forall|j: int| 0 <= j < name@.len() ==> f.atom.is_identifier.spec_call(#[trigger] name@[j])
                    && f.statement.copulas.pre_matched(tail(name@ + rest, j)) is None)
            // ... and it ends where `rest` starts
            && (rest.len() > 0 ==> !(f.atom.is_identifier.spec_call(rest[0]) && f.statement.copulas.pre_matched(rest) is None)),
        Term::Compound { connecter, terms } =>
            f.compound.set_brackets.pre_matched(env) is None
            && terms@.len() >= 1
            && (f.compound.connecters.pre_matched(connecter@ + items_k(f, terms, 0, false, f.compound.brackets.1@, rest)) matches Some(k) && k@ == connecter@)
            && rt_items(f, terms, 0, false, f.compound.brackets.1@, rest),
        Term::Set { left_bracket, terms, right_bracket } =>
            (f.compound.set_brackets.pre_matched(env) matches Some(p) && p.0@ == left_bracket@ && p.1@ == right_bracket@)
            && terms@.len() >= 1
            && rt_items(f, terms, 0, true, right_bracket@, rest),
        Term::Statement { copula, subject, predicate } => {
            let after_subject = copula@ + ns_k(f, *predicate, f.statement.brackets.1@ + rest);
            f.compound.set_brackets.pre_matched(env) is None
            && !is_prefix_of(f.compound.brackets.0@, env)
            && rt_term(f, *subject, after_subject)
            && (f.statement.copulas.pre_matched(after_subject) matches Some(k) && k@ == copula@)
            && rt_term(f, *predicate, f.statement.brackets.1@ + rest)
        },
    }
}
pub open spec fn rt_items(f: &NarseseFormat, v: Vec<Term>, k: nat, plain: bool, right: Seq<char>, rest: Seq<char>) -> bool
    decreases v, v@.len() - k
{
    if k >= v@.len() { true } else {
        // the closing bracket is not seen where a component starts
        (plain && k == 0 || !lenient_prefix(items_k(f, v, k, plain, right, rest), right))
        && rt_term(f, v@[k as int], items_k(f, v, k + 1, plain, right, rest))
        && rt_items(f, v, k + 1, plain, right, rest)
    }
}
pub open spec fn rt_hyp(f: &NarseseFormat, env: Seq<char>, t: Term, rest: Seq<char>) -> bool {
    env == ns_k(f, t, rest) && rt_term(f, t, rest)
}
pub open spec fn rt_res(r: ParseResult<(Term, ParseIndex)>, env: Seq<char>, t: Term, rest: Seq<char>) -> bool {
    r matches Ok(p) && term_eqv(p.0, t) && p.1 == env.len() - rest.len()
}
/// the text of a term followed by `rest` ends with `rest`
pub proof fn lemma_ns_k_ends(f: &NarseseFormat, t: Term, rest: Seq<char>)
    ensures ns_k(f, t, rest).len() >= rest.len(),
        tail(ns_k(f, t, rest), ns_k(f, t, rest).len() - rest.len()) == rest,
    decreases t, 0nat
{
    let env = ns_k(f, t, rest);
    match t {
        Term::Atom { prefix, name } => {
            assert(tail(env, env.len() - rest.len()) =~= rest);
        },
        Term::Compound { connecter, terms } => {
            let it = items_k(f, terms, 0, false, f.compound.brackets.1@, rest);
            lemma_items_k_ends(f, terms, 0, false, f.compound.brackets.1@, rest);
            assert(tail(env, env.len() - rest.len()) =~= tail(it, it.len() - rest.len()));
        },
        Term::Set { left_bracket, terms, right_bracket } => {
            let it = items_k(f, terms, 0, true, right_bracket@, rest);
            lemma_items_k_ends(f, terms, 0, true, right_bracket@, rest);
            assert(tail(env, env.len() - rest.len()) =~= tail(it, it.len() - rest.len()));
        },
        Term::Statement { copula, subject, predicate } => {
            let r2 = f.statement.brackets.1@ + rest;
            let p = ns_k(f, *predicate, r2);
            let c = copula@ + p;
            let s = ns_k(f, *subject, c);
            lemma_ns_k_ends(f, *predicate, r2);
            lemma_ns_k_ends(f, *subject, c);
            assert(tail(r2, r2.len() - rest.len()) =~= rest);
            assert(tail(p, p.len() - rest.len()) =~= tail(tail(p, p.len() - r2.len()), r2.len() - rest.len()));
            assert(tail(c, c.len() - rest.len()) =~= tail(p, p.len() - rest.len()));
            assert(tail(s, s.len() - rest.len()) =~= tail(tail(s, s.len() - c.len()), c.len() - rest.len()));
            assert(tail(env, env.len() - rest.len()) =~= tail(s, s.len() - rest.len()));
        },
    }
}
pub proof fn lemma_items_k_ends(f: &NarseseFormat, v: Vec<Term>, k: nat, plain: bool, right: Seq<char>, rest: Seq<char>)
    ensures items_k(f, v, k, plain, right, rest).len() >= rest.len(),
        tail(items_k(f, v, k, plain, right, rest), items_k(f, v, k, plain, right, rest).len() - rest.len()) == rest,
    decreases v, v@.len() - k
{
    let it = items_k(f, v, k, plain, right, rest);
    if k >= v@.len() {
        assert(tail(it, it.len() - rest.len()) =~= rest);
    } else {
        let nx = items_k(f, v, k + 1, plain, right, rest);
        let e = ns_k(f, v@[k as int], nx);
        lemma_items_k_ends(f, v, k + 1, plain, right, rest);
        lemma_ns_k_ends(f, v@[k as int], nx);
        assert(tail(e, e.len() - rest.len()) =~= tail(tail(e, e.len() - nx.len()), nx.len() - rest.len()));
        if plain && k == 0 {
        } else {
            assert(tail(it, it.len() - rest.len()) =~= tail(e, e.len() - rest.len()));
        }
    }
}
/// skipping a whole term: what follows it in the text is `rest`
pub proof fn lemma_skip_term(f: &NarseseFormat, env: Seq<char>, at: int, t: Term, rest: Seq<char>)
    requires 0 <= at <= env.len(), tail(env, at) == ns_k(f, t, rest)
    ensures at + (ns_k(f, t, rest).len() - rest.len()) <= env.len(),
        tail(env, at + (ns_k(f, t, rest).len() - rest.len())) == rest,
{
    lemma_ns_k_ends(f, t, rest);
    let x = ns_k(f, t, rest);
    assert(tail(env, at + (x.len() - rest.len())) =~= tail(tail(env, at), x.len() - rest.len()));
}
/// peeling a keyword off the front
pub proof fn lemma_tail_concat(a: Seq<char>, b: Seq<char>)
    ensures tail(a + b, a.len() as int) == b, is_prefix_of(a, a + b), lenient_prefix(a + b, a),
{
    assert(tail(a + b, a.len() as int) =~= b);
    assert((a + b).subrange(0, a.len() as int) =~= a);
}
pub proof fn lemma_tail_tail(env: Seq<char>, i: int, j: int)
    requires 0 <= i, 0 <= j, i + j <= env.len()
    ensures tail(tail(env, i), j) == tail(env, i + j)
{
    assert(tail(tail(env, i), j) =~= tail(env, i + j));
}

/// what follows the subject of a statement in its text
pub open spec fn st_after_subject(f: &NarseseFormat, t: Term, rest: Seq<char>) -> Seq<char> {
    t->copula@ + ns_k(f, *t->predicate, f.statement.brackets.1@ + rest)
}
/// C02 loop invariant of the component loops: the components parsed so far are the first ones of
/// the term's list, the cursor stands where the remaining ones (then the closing bracket, then
/// `rest`) start, and the hypotheses for the remaining ones hold
pub open spec fn list_inv(f: &NarseseFormat, env: Seq<char>, tv: Vec<Term>, got: Seq<Term>, pos: int, plain: bool, right: Seq<char>, rest: Seq<char>) -> bool {
    &&& got.len() <= tv@.len()
    &&& forall|i: int| 0 <= i < got.len() ==> term_eqv(#[trigger] got[i], tv@[i])
    &&& 0 <= pos <= env.len()
    &&& tail(env, pos) == items_k(f, tv, got.len(), plain, right, rest)
    &&& rt_items(f, tv, got.len(), plain, right, rest)
}
pub proof fn lemma_terms_eqv(v: Vec<Term>, w: Seq<Term>, n: nat)
    requires n <= v@.len(), n <= w.len(), forall|i: int| 0 <= i < n ==> term_eqv(#[trigger] v@[i], w[i])
    ensures terms_eqv(v, w, n)
    decreases n
{
    if n > 0 { lemma_terms_eqv(v, w, (n - 1) as nat); }
}

/// the text that reaches the term segmentation for the input string `input`
pub open spec fn idealized(f: &NarseseFormat, input: Seq<char>) -> Seq<char> {
    if f.space.remove_spaces_before_parse { strip_spaces(input, &f.space.is_for_parse) } else { input }
}
/// C02 at the entry points: a string that idealizes to the formatter's text of t parses to t
pub open spec fn rt_entry(f: &NarseseFormat, input: Seq<char>, r: ParseResult<Term>) -> bool {
    forall|t: Term| #[trigger] rt_hyp(f, idealized(f, input), t, Seq::<char>::empty()) ==> (r matches Ok(t2) && term_eqv(t2, t))
}

// ------------------------------------------------------------------------------------------
// std string massaging in segment_budget / segment_truth (R28).  The two adapter chains
//   s.trim_start_matches(&left).trim_end_matches(&right)
//   s.split(&sep).filter(|s| !s.is_empty()).map(str::to_owned).collect::<Vec<String>>()
// are replaced by the helpers below, whose bodies ARE those chains and whose contracts (A2) state
// what std documents: trim_*_matches removes every repeated leading / trailing occurrence of a
// non-empty pattern; split cuts at the leftmost non-overlapping occurrences of the separator;
// the non-empty pieces are kept in order.
// ------------------------------------------------------------------------------------------
pub open spec fn trim_start_spec(s: Seq<char>, p: Seq<char>) -> Seq<char>
    decreases s.len()
{
    if p.len() > 0 && is_prefix_of(p, s) { trim_start_spec(tail(s, p.len() as int), p) } else { s }
}
pub open spec fn trim_end_spec(s: Seq<char>, p: Seq<char>) -> Seq<char>
    decreases s.len()
{
    if p.len() > 0 && is_suffix_of(p, s) { trim_end_spec(s.subrange(0, s.len() - p.len()), p) } else { s }
}
/// index of the leftmost occurrence of `sep` in `s` at or after `i` (-1: none)
pub open spec fn first_occ_from(s: Seq<char>, sep: Seq<char>, i: int) -> int
    decreases s.len() - i
{
    if i < 0 || i + sep.len() > s.len() || i >= s.len() { -1 }
    else if is_prefix_of(sep, tail(s, i)) { i }
    else { first_occ_from(s, sep, i + 1) }
}
pub open spec fn split_spec(s: Seq<char>, sep: Seq<char>) -> Seq<Seq<char>>
    decreases s.len()
{
    let i = first_occ_from(s, sep, 0);
    if sep.len() == 0 || i < 0 || i + sep.len() > s.len() { seq![s] }
    else { seq![s.subrange(0, i)] + split_spec(tail(s, i + sep.len()), sep) }
}
pub open spec fn keep_nonempty(ps: Seq<Seq<char>>) -> Seq<Seq<char>>
    decreases ps.len()
{
    if ps.len() == 0 { ps }
    else if ps.last().len() == 0 { keep_nonempty(ps.drop_last()) }
    else { keep_nonempty(ps.drop_last()).push(ps.last()) }
}
pub open spec fn str_views(v: Seq<String>) -> Seq<Seq<char>> { v.map(|i: int, s: String| s@) }
#[verifier::external_body]
pub fn vx_trim_matches<'a>(s: &'a String, left: &String, right: &String) -> (r: &'a str)
    ensures r@ == trim_end_spec(trim_start_spec(s@, left@), right@)
{ s.trim_start_matches(left.as_str()).trim_end_matches(right.as_str()) }
#[verifier::external_body]
pub fn vx_split_nonempty(s: &str, sep: &String) -> (r: Vec<String>)
    ensures str_views(r@) == keep_nonempty(split_spec(s@, sep@))
{ s.split(sep.as_str()).filter(|s| !s.is_empty()).map(str::to_owned).collect::<Vec<String>>() }

// ---- C02 (sentence / task level): numeric entry lists between brackets ----
/// entries joined by `sep`, written from the left (the parser's view)
pub open spec fn join_l(es: Seq<Seq<char>>, sep: Seq<char>) -> Seq<char>
    decreases es.len()
{
    if es.len() == 0 { Seq::empty() } else if es.len() == 1 { es[0] }
    else { es[0] + (sep + join_l(es.drop_first(), sep)) }
}
/// every entry is non-empty, consists of characters the content predicate accepts, and contains
/// none of the characters in `avoid` (first / last characters of the brackets, first of the separator)
pub open spec fn entries_ok(es: Seq<Seq<char>>, pred: &VxCharPred, avoid: Set<char>) -> bool {
    forall|k: int, j: int| 0 <= k < es.len() && 0 <= j < es[k].len() ==>
        pred.spec_call(#[trigger] es[k][j]) && !avoid.contains(es[k][j])
}
pub open spec fn all_nonempty(es: Seq<Seq<char>>) -> bool { forall|k: int| 0 <= k < es.len() ==> (#[trigger] es[k]).len() > 0 }
pub open spec fn chars_ok(s: Seq<char>, pred: &VxCharPred, avoid: Set<char>) -> bool {
    forall|j: int| 0 <= j < s.len() ==> pred.spec_call(#[trigger] s[j]) && !avoid.contains(s[j])
}
/// every character of join_l(es, sep) is a character of an entry or of the separator
pub proof fn lemma_join_chars(es: Seq<Seq<char>>, sep: Seq<char>, pred: &VxCharPred, avoid: Set<char>)
    requires entries_ok(es, pred, avoid), chars_ok(sep, pred, avoid)
    ensures chars_ok(join_l(es, sep), pred, avoid)
    decreases es.len()
{
    if es.len() == 0 {
    } else if es.len() == 1 {
        assert forall|j: int| 0 <= j < es[0].len() implies pred.spec_call(#[trigger] es[0][j]) && !avoid.contains(es[0][j]) by {}
    } else {
        let rest = es.drop_first();
        assert forall|k: int, j: int| 0 <= k < rest.len() && 0 <= j < rest[k].len() implies
            pred.spec_call(#[trigger] rest[k][j]) && !avoid.contains(rest[k][j]) by { assert(rest[k] == es[k + 1]); }
        lemma_join_chars(rest, sep, pred, avoid);
        let jr = join_l(rest, sep);
        let s = es[0] + (sep + jr);
        assert forall|j: int| 0 <= j < s.len() implies pred.spec_call(#[trigger] s[j]) && !avoid.contains(s[j]) by {
            if j < es[0].len() { assert(s[j] == es[0][j]); }
            else if j < es[0].len() + sep.len() { assert(s[j] == sep[j - es[0].len()]); }
            else { assert(s[j] == jr[j - es[0].len() - sep.len()]); }
        }
    }
}
/// the leftmost occurrence: nothing that starts with sep[0] before `target`, an occurrence at `target`
pub proof fn lemma_first_occ(s: Seq<char>, sep: Seq<char>, i: int, target: int)
    requires sep.len() >= 1, 0 <= i <= target, target + sep.len() <= s.len(),
        forall|j: int| i <= j < target ==> s[j] != sep[0],
        is_prefix_of(sep, tail(s, target)),
    ensures first_occ_from(s, sep, i) == target
    decreases target - i
{
    if i < target {
        if is_prefix_of(sep, tail(s, i)) {
            assert(tail(s, i).subrange(0, sep.len() as int)[0] == sep[0]);
            assert(tail(s, i)[0] == s[i]);
            assert(false);
        }
        lemma_first_occ(s, sep, i + 1, target);
    }
}
pub proof fn lemma_no_occ(s: Seq<char>, sep: Seq<char>, i: int)
    requires sep.len() >= 1, 0 <= i, forall|j: int| i <= j < s.len() ==> s[j] != sep[0],
    ensures first_occ_from(s, sep, i) == -1
    decreases s.len() - i
{
    if i + sep.len() <= s.len() && i < s.len() {
        if is_prefix_of(sep, tail(s, i)) {
            assert(tail(s, i).subrange(0, sep.len() as int)[0] == sep[0]);
            assert(tail(s, i)[0] == s[i]);
            assert(false);
        }
        lemma_no_occ(s, sep, i + 1);
    }
}
pub proof fn lemma_keep_nonempty_one(e: Seq<char>)
    ensures e.len() == 0 ==> keep_nonempty(seq![e]) == Seq::<Seq<char>>::empty(),
        e.len() > 0 ==> keep_nonempty(seq![e]) == seq![e],
{
    let one = seq![e];
    assert(one.len() == 1);
    assert(one.last() == e);
    assert(one.drop_last() =~= Seq::<Seq<char>>::empty());
    assert(keep_nonempty(one.drop_last()) =~= Seq::<Seq<char>>::empty());
    if e.len() > 0 {
        assert(Seq::<Seq<char>>::empty().push(e) =~= one);
    }
}
pub proof fn lemma_keep_nonempty_prepend(e: Seq<char>, ps: Seq<Seq<char>>)
    requires e.len() > 0
    ensures keep_nonempty(seq![e] + ps) == seq![e] + keep_nonempty(ps)
    decreases ps.len()
{
    if ps.len() == 0 {
        assert(seq![e] + ps =~= seq![e]);
        lemma_keep_nonempty_one(e);
        assert(seq![e] + keep_nonempty(ps) =~= seq![e]);
    } else {
        lemma_keep_nonempty_prepend(e, ps.drop_last());
        assert((seq![e] + ps).drop_last() =~= seq![e] + ps.drop_last());
        assert((seq![e] + ps).last() == ps.last());
        if ps.last().len() > 0 {
            assert((seq![e] + keep_nonempty(ps.drop_last())).push(ps.last()) =~= seq![e] + keep_nonempty(ps.drop_last()).push(ps.last()));
        }
    }
}
/// splitting the joined entries gives the entries back
pub proof fn lemma_split_join(es: Seq<Seq<char>>, sep: Seq<char>)
    requires sep.len() >= 1, all_nonempty(es),
        forall|k: int, j: int| 0 <= k < es.len() && 0 <= j < es[k].len() ==> #[trigger] es[k][j] != sep[0],
    ensures keep_nonempty(split_spec(join_l(es, sep), sep)) == es
    decreases es.len()
{
    let s = join_l(es, sep);
    if es.len() == 0 {
        assert(first_occ_from(s, sep, 0) == -1);
        assert(split_spec(s, sep) =~= seq![s]);
        lemma_keep_nonempty_one(s);
        assert(es =~= Seq::<Seq<char>>::empty());
    } else if es.len() == 1 {
        assert forall|j: int| 0 <= j < s.len() implies s[j] != sep[0] by { assert(s[j] == es[0][j]); }
        lemma_no_occ(s, sep, 0);
        assert(split_spec(s, sep) =~= seq![s]);
        lemma_keep_nonempty_one(s);
        assert(es =~= seq![es[0]]);
    } else {
        let rest = es.drop_first();
        let jr = join_l(rest, sep);
        assert(s == es[0] + (sep + jr));
        assert forall|j: int| 0 <= j < es[0].len() implies s[j] != sep[0] by { assert(s[j] == es[0][j]); }
        lemma_tail_concat(es[0], sep + jr);
        lemma_tail_concat(sep, jr);
        assert(is_prefix_of(sep, sep + jr));
        lemma_first_occ(s, sep, 0, es[0].len() as int);
        assert(s.subrange(0, es[0].len() as int) =~= es[0]);
        assert(tail(s, (es[0].len() + sep.len()) as int) =~= jr);
        assert forall|k: int, j: int| 0 <= k < rest.len() && 0 <= j < rest[k].len() implies #[trigger] rest[k][j] != sep[0] by { assert(rest[k] == es[k + 1]); }
        assert forall|k: int| 0 <= k < rest.len() implies (#[trigger] rest[k]).len() > 0 by { assert(rest[k] == es[k + 1]); }
        lemma_split_join(rest, sep);
        lemma_keep_nonempty_prepend(es[0], split_spec(jr, sep));
        assert(seq![es[0]] + rest =~= es);
    }
}
pub proof fn lemma_trim_start_step(s: Seq<char>, p: Seq<char>)
    ensures (p.len() > 0 && is_prefix_of(p, s)) ==> trim_start_spec(s, p) == trim_start_spec(tail(s, p.len() as int), p),
        !(p.len() > 0 && is_prefix_of(p, s)) ==> trim_start_spec(s, p) == s,
{}
pub proof fn lemma_trim_end_step(s: Seq<char>, p: Seq<char>)
    ensures (p.len() > 0 && is_suffix_of(p, s)) ==> trim_end_spec(s, p) == trim_end_spec(s.subrange(0, s.len() - p.len()), p),
        !(p.len() > 0 && is_suffix_of(p, s)) ==> trim_end_spec(s, p) == s,
{}
/// trimming the brackets off `left + body + right` gives `body` when body neither starts with
/// left's first nor ends with right's last character (and is non-empty)
pub proof fn lemma_trim_brackets(left: Seq<char>, body: Seq<char>, right: Seq<char>)
    requires left.len() >= 1, right.len() >= 1, body.len() >= 1, body[0] != left[0], body.last() != right.last()
    ensures trim_end_spec(trim_start_spec(left + (body + right), left), right) == body
{
    let s = left + (body + right);
    let s1 = body + right;
    // leading side: `left` once, then the body starts with another character
    assert(is_prefix_of(left, s)) by { assert(s.subrange(0, left.len() as int) =~= left); }
    assert(tail(s, left.len() as int) == s1) by { assert(tail(s, left.len() as int) =~= s1); }
    assert(!is_prefix_of(left, s1)) by {
        if is_prefix_of(left, s1) {
            assert(s1.subrange(0, left.len() as int)[0] == s1[0]);
            assert(s1[0] == body[0]);
        }
    }
    lemma_trim_start_step(s, left);
    lemma_trim_start_step(s1, left);
    assert(trim_start_spec(s, left) == s1);
    // trailing side: `right` once, then the body ends with another character
    assert(is_suffix_of(right, s1)) by { assert(s1.subrange(s1.len() - right.len(), s1.len() as int) =~= right); }
    assert(s1.subrange(0, s1.len() - right.len()) == body) by { assert(s1.subrange(0, s1.len() - right.len()) =~= body); }
    assert(!is_suffix_of(right, body)) by {
        if is_suffix_of(right, body) {
            let tl = body.subrange(body.len() - right.len(), body.len() as int);
            assert(tl.last() == body.last());
        }
    }
    lemma_trim_end_step(s1, right);
    lemma_trim_end_step(body, right);
}
// ---- C02: completeness of the bracket scans ----
/// the closing bracket stands at p and every character between `start` and p is accepted
pub open spec fn close_reachable<F: Fn(char) -> bool>(env: Seq<char>, start: int, right: Seq<char>, p: int, verify: F) -> bool {
    start <= p < env.len() && is_prefix_of(right, tail(env, p))
    && forall|j: int, b: bool| start <= j < p && #[trigger] call_ensures(verify, (env[j],), b) ==> b
}
/// the opening bracket ends at q + left.len() and every character after it is accepted
pub open spec fn open_reachable<F: Fn(char) -> bool>(c: Seq<char>, left: Seq<char>, q: int, verify: F) -> bool {
    0 <= q && q + left.len() <= c.len() && is_suffix_of(left, c.subrange(0, q + left.len()))
    && forall|j: int, b: bool| q + left.len() <= j < c.len() && #[trigger] call_ensures(verify, (c[j],), b) ==> b
}
/// the same, with the content predicate of the format
pub open spec fn close_reachable_p(env: Seq<char>, start: int, right: Seq<char>, p: int, pred: &VxCharPred) -> bool {
    vx_mark(p) && start <= p < env.len() && is_prefix_of(right, tail(env, p))
    && forall|j: int| start <= j < p ==> pred.spec_call(#[trigger] env[j])
}
pub open spec fn open_reachable_p(c: Seq<char>, left: Seq<char>, q: int, pred: &VxCharPred) -> bool {
    vx_mark(q) && 0 <= q && q + left.len() <= c.len() && is_suffix_of(left, c.subrange(0, q + left.len()))
    && forall|j: int| q + left.len() <= j < c.len() ==> pred.spec_call(#[trigger] c[j])
}
/// what segment_budget / segment_truth compute from the bracketed text
pub open spec fn items_of(text: Seq<char>, left: Seq<char>, right: Seq<char>, sep: Seq<char>) -> Seq<Seq<char>> {
    keep_nonempty(split_spec(trim_end_spec(trim_start_spec(text, left), right), sep))
}

// ------------------------------------------------------------------------------------------
// C02, sentence / task level: what parse_items is handed when the text is the lexical formatter's
// layout of a value (spaces removed): [budget] term [punctuation [stamp] [truth]]
// ------------------------------------------------------------------------------------------
/// the strings of a lexical value, as character sequences (a Term value has no punctuation, stamp,
/// truth; a Sentence no budget)
pub struct RtV {
    pub has_budget: bool,
    pub budget: Seq<Seq<char>>,
    pub term: Term,
    pub punct: Seq<char>,
    pub stamp: Seq<char>,
    pub truth: Seq<Seq<char>>,
}
pub open spec fn entries_text(es: Seq<Seq<char>>, l: Seq<char>, r: Seq<char>, sep: Seq<char>) -> Seq<char> { l + (join_l(es, sep) + r) }
pub open spec fn rt_b(f: &NarseseFormat, v: RtV) -> Seq<char> {
    if v.has_budget { entries_text(v.budget, f.task.budget_brackets.0@, f.task.budget_brackets.1@, f.task.budget_separator@) } else { Seq::empty() }
}
#[verifier::opaque]
pub open spec fn rt_t(f: &NarseseFormat, v: RtV) -> Seq<char> { ns_k(f, v.term, Seq::empty()) }
pub open spec fn rt_tr(f: &NarseseFormat, v: RtV) -> Seq<char> {
    if v.truth.len() == 0 { Seq::empty() } else { entries_text(v.truth, f.sentence.truth_brackets.0@, f.sentence.truth_brackets.1@, f.sentence.truth_separator@) }
}
/// budget + term: what stands left of the punctuation
pub open spec fn rt_x2(f: &NarseseFormat, v: RtV) -> Seq<char> { rt_b(f, v) + rt_t(f, v) }
/// ... left of the stamp
pub open spec fn rt_x1p(f: &NarseseFormat, v: RtV) -> Seq<char> { rt_x2(f, v) + v.punct }
/// ... left of the truth
pub open spec fn rt_x1(f: &NarseseFormat, v: RtV) -> Seq<char> { rt_x1p(f, v) + v.stamp }
pub open spec fn rt_env(f: &NarseseFormat, v: RtV) -> Seq<char> { rt_x1(f, v) + rt_tr(f, v) }

/// a numeric list between brackets: non-empty brackets and separator; entries are non-empty runs of
/// content characters that avoid the first / last characters of the brackets and the first of the
/// separator; the separator consists of content characters that avoid the bracket characters
pub open spec fn list_ok(es: Seq<Seq<char>>, l: Seq<char>, r: Seq<char>, sep: Seq<char>, pred: &VxCharPred) -> bool {
    &&& l.len() >= 1 && r.len() >= 1 && sep.len() >= 1 && es.len() >= 1
    &&& all_nonempty(es)
    &&& entries_ok(es, pred, set![l[0], l.last(), r[0], r.last(), sep[0]])
    &&& chars_ok(sep, pred, set![l[0], l.last(), r[0], r.last()])
}
/// `l r` (an empty list) yields no entry
pub open spec fn empty_list_ok(l: Seq<char>, r: Seq<char>, sep: Seq<char>) -> bool {
    l.len() >= 1 && r.len() >= 1 && sep.len() >= 1 && items_of(l + r, l, r, sep).len() == 0
}
/// the prefix scan for a budget fails: it meets a character that is no budget content (or the end)
/// before any closing bracket
pub open spec fn prefix_scan_stops(env: Seq<char>, start: int, right: Seq<char>, pred: &VxCharPred) -> bool {
    exists|e: int| #![trigger vx_mark(e)] vx_mark(e) && start <= e <= env.len()
        && (forall|j: int| start <= j <= e && j < env.len() ==> !is_prefix_of(right, #[trigger] tail(env, j)))
        && (e == env.len() || !pred.spec_call(env[e]))
}
/// the suffix scan for a stamp fails: it meets a character that is no stamp content (or the start)
/// before the text ends with the opening text
pub open spec fn suffix_scan_stops(c: Seq<char>, left: Seq<char>, pred: &VxCharPred) -> bool {
    exists|e: int| #![trigger vx_mark(e)] vx_mark(e) && 0 <= e <= c.len()
        && (forall|j: int| e <= j <= c.len() ==> !is_suffix_of(left, #[trigger] c.subrange(0, j)))
        && (e == 0 || !pred.spec_call(c[e - 1]))
}
/// a non-empty stamp string is one of the format's stamp forms: opening text, content characters, closing text
pub open spec fn stamp_ok(f: &NarseseFormat, x: Seq<char>, s: Seq<char>) -> bool {
    f.sentence.stamp_brackets.suf_matched(x + s) matches Some(t)
    && t.0@.len() + t.1@.len() <= s.len()
    && is_prefix_of(t.0@, s) && is_suffix_of(t.1@, s)
    && (forall|j: int| t.0@.len() <= j < s.len() - t.1@.len() ==> f.sentence.is_stamp_content.spec_call(#[trigger] s[j]))
    // the opening text is not seen again further right
    && (forall|j: int| x.len() + t.0@.len() < j <= x.len() + s.len() - t.1@.len() ==> !is_suffix_of(t.0@, #[trigger] (x + s).subrange(0, j)))
}
pub open spec fn no_stamp(f: &NarseseFormat, x: Seq<char>) -> bool {
    f.sentence.stamp_brackets.suf_matched(x) is None
    || (f.sentence.stamp_brackets.suf_matched(x) matches Some(t)
        && suffix_scan_stops(x.subrange(0, x.len() - t.1@.len()), t.0@, &f.sentence.is_stamp_content))
}
/// budget: present with well-formed entries, or absent and not mistaken for one
pub open spec fn rt_budget_hyp(f: &NarseseFormat, has_budget: bool, budget: Seq<Seq<char>>, env: Seq<char>) -> bool {
    &&& f.task.budget_brackets.1@.len() >= 1
    &&& has_budget ==> (if budget.len() == 0 { empty_list_ok(f.task.budget_brackets.0@, f.task.budget_brackets.1@, f.task.budget_separator@) }
            else { list_ok(budget, f.task.budget_brackets.0@, f.task.budget_brackets.1@, f.task.budget_separator@, &f.task.is_budget_content) })
    &&& !has_budget ==> (!is_prefix_of(f.task.budget_brackets.0@, env)
            || prefix_scan_stops(env, f.task.budget_brackets.0@.len() as int, f.task.budget_brackets.1@, &f.task.is_budget_content))
}
pub open spec fn rt_truth_hyp(f: &NarseseFormat, truth: Seq<Seq<char>>, env: Seq<char>) -> bool {
    &&& truth.len() > 0 ==> list_ok(truth, f.sentence.truth_brackets.0@, f.sentence.truth_brackets.1@, f.sentence.truth_separator@, &f.sentence.is_truth_content)
    &&& truth.len() == 0 ==> !is_suffix_of(f.sentence.truth_brackets.1@, env)
}
/// x: what stands left of the stamp
pub open spec fn rt_stamp_hyp(f: &NarseseFormat, x: Seq<char>, stamp: Seq<char>) -> bool {
    &&& stamp.len() > 0 ==> stamp_ok(f, x, stamp)
    &&& stamp.len() == 0 ==> no_stamp(f, x)
}
/// x: what stands left of the punctuation (budget + term)
pub open spec fn rt_punct_hyp(f: &NarseseFormat, x: Seq<char>, punct: Seq<char>) -> bool {
    &&& punct.len() > 0 ==> (f.sentence.punctuations.suf_matched(x + punct) matches Some(k) && k@ == punct)
    &&& punct.len() == 0 ==> f.sentence.punctuations.suf_matched(x) is None
}
/// hypotheses of the round trip for a whole value (see rt_term for the term)
#[verifier::opaque]
pub open spec fn rt_value(f: &NarseseFormat, v: RtV) -> bool {
    &&& rt_term(f, v.term, Seq::empty()) && rt_t(f, v).len() > 0
    &&& rt_budget_hyp(f, v.has_budget, v.budget, rt_env(f, v))
    &&& rt_truth_hyp(f, v.truth, rt_env(f, v))
    &&& rt_stamp_hyp(f, rt_x1p(f, v), v.stamp)
    &&& rt_punct_hyp(f, rt_x2(f, v), v.punct)
}
pub open spec fn rt_vhyp(f: &NarseseFormat, env: Seq<char>, v: RtV) -> bool { env == rt_env(f, v) && rt_value(f, v) }

/// a bracketed list `l J r` followed by anything: where the first closing bracket is, what the items are
pub proof fn lemma_list_prefix(es: Seq<Seq<char>>, l: Seq<char>, r: Seq<char>, sep: Seq<char>, pred: &VxCharPred, rest: Seq<char>)
    requires list_ok(es, l, r, sep, pred)
    ensures ({
        let b = entries_text(es, l, r, sep); let env = b + rest; let p = l.len() + join_l(es, sep).len();
        &&& is_prefix_of(l, env) && env.subrange(0, b.len() as int) == b && b.len() == p + r.len()
        &&& close_reachable_p(env, l.len() as int, r, p as int, pred)
        &&& forall|rb: int| #[trigger] first_close_from(env, l.len() as int, r, rb) ==> rb == b.len()
        &&& items_of(b, l, r, sep) == es
    })
{
    let j = join_l(es, sep);
    let b = entries_text(es, l, r, sep); let env = b + rest; let p = (l.len() + j.len()) as int;
    let avoid2 = set![l[0], l.last(), r[0], r.last()];
    // characters of the joined entries
    assert forall|k: int, i: int| 0 <= k < es.len() && 0 <= i < es[k].len() implies pred.spec_call(#[trigger] es[k][i]) && !avoid2.contains(es[k][i]) by {}
    lemma_join_chars(es, sep, pred, avoid2);
    lemma_join_nonempty(es, sep);
    assert(env.subrange(0, b.len() as int) =~= b);
    assert(env.subrange(0, l.len() as int) =~= l);
    assert forall|i: int| l.len() <= i < p implies env[i] == j[i - l.len()] by {}
    assert(tail(env, p).subrange(0, r.len() as int) =~= r);
    assert(vx_mark(p));
    assert forall|rb: int| #[trigger] first_close_from(env, l.len() as int, r, rb) implies rb == b.len() by {
        let q = rb - r.len();
        if q < p {
            assert(tail(env, q).subrange(0, r.len() as int)[0] == r[0]);
            assert(tail(env, q)[0] == env[q]);
            assert(false);
        }
        if q > p { assert(is_prefix_of(r, tail(env, p))); assert(false); }
    }
    // items
    lemma_trim_brackets(l, j, r);
    assert forall|k: int, i: int| 0 <= k < es.len() && 0 <= i < es[k].len() implies #[trigger] es[k][i] != sep[0] by {}
    lemma_split_join(es, sep);
}
pub proof fn lemma_join_nonempty(es: Seq<Seq<char>>, sep: Seq<char>)
    requires es.len() >= 1, all_nonempty(es)
    ensures join_l(es, sep).len() >= 1, join_l(es, sep)[0] == es[0][0], join_l(es, sep).last() == es.last().last()
    decreases es.len()
{
    if es.len() > 1 {
        let rest = es.drop_first();
        assert forall|k: int| 0 <= k < rest.len() implies (#[trigger] rest[k]).len() > 0 by { assert(rest[k] == es[k + 1]); }
        lemma_join_nonempty(rest, sep);
        assert(rest.last() == es.last());
    }
}
/// ... and as a suffix of anything: where the last opening bracket is
pub proof fn lemma_list_suffix(es: Seq<Seq<char>>, l: Seq<char>, r: Seq<char>, sep: Seq<char>, pred: &VxCharPred, x: Seq<char>)
    requires list_ok(es, l, r, sep, pred)
    ensures ({
        let b = entries_text(es, l, r, sep); let env = x + b; let c = env.subrange(0, env.len() - r.len());
        &&& is_suffix_of(r, env) && env.subrange(x.len() as int, env.len() as int) == b
        &&& open_reachable_p(c, l, x.len() as int, pred)
        &&& forall|lb: int| #[trigger] last_open_before(env, env.len() - r.len(), l, lb) ==> lb == x.len()
        &&& items_of(b, l, r, sep) == es
    })
{
    let j = join_l(es, sep);
    let b = entries_text(es, l, r, sep); let env = x + b; let c = env.subrange(0, env.len() - r.len());
    let avoid2 = set![l[0], l.last(), r[0], r.last()];
    assert forall|k: int, i: int| 0 <= k < es.len() && 0 <= i < es[k].len() implies pred.spec_call(#[trigger] es[k][i]) && !avoid2.contains(es[k][i]) by {}
    lemma_join_chars(es, sep, pred, avoid2);
    lemma_join_nonempty(es, sep);
    assert(env.subrange(env.len() - r.len(), env.len() as int) =~= r);
    assert(env.subrange(x.len() as int, env.len() as int) =~= b);
    assert(c =~= x + (l + j));
    let q00 = (x.len() + l.len()) as int;
    let pre0 = c.subrange(0, q00);
    assert(pre0.subrange(pre0.len() - l.len(), pre0.len() as int) =~= l);
    assert forall|i: int| x.len() + l.len() <= i < c.len() implies c[i] == j[i - x.len() - l.len()] by {}
    assert(vx_mark(x.len() as int));
    assert forall|lb: int| #[trigger] last_open_before(env, env.len() - r.len(), l, lb) implies lb == x.len() by {
        let q = lb + l.len();
        let q0 = (x.len() + l.len()) as int;
        if q > q0 {
            // the text up to q would end with l, but its last character is a character of j
            let pre = env.subrange(0, q);
            assert(pre.subrange(pre.len() - l.len(), pre.len() as int).last() == l.last());
            assert(pre.last() == env[q - 1]);
            assert(env[q - 1] == j[q - 1 - x.len() - l.len()]);
            assert(false);
        }
        if q < q0 {
            assert(env.subrange(0, q0) =~= c.subrange(0, q0));
            assert(is_suffix_of(l, env.subrange(0, q0)));
            assert(false);
        }
    }
    lemma_trim_brackets(l, j, r);
    assert forall|k: int, i: int| 0 <= k < es.len() && 0 <= i < es[k].len() implies #[trigger] es[k][i] != sep[0] by {}
    lemma_split_join(es, sep);
}
/// what parse_items returns for the text of value v
pub open spec fn rt_mid(m: MidParseResult, v: RtV) -> bool {
    &&& (v.has_budget ==> (m.budget matches Some(b) && str_views(b@) == v.budget)) && (!v.has_budget ==> m.budget is None)
    &&& (m.term matches Some(t) && term_eqv(t, v.term))
    &&& (v.punct.len() > 0 ==> (m.punctuation matches Some(k) && k@ == v.punct)) && (v.punct.len() == 0 ==> m.punctuation is None)
    &&& (v.stamp.len() > 0 ==> (m.stamp matches Some(s) && s@ == v.stamp)) && (v.stamp.len() == 0 ==> m.stamp is None)
    &&& (v.truth.len() > 0 ==> (m.truth matches Some(t) && str_views(t@) == v.truth)) && (v.truth.len() == 0 ==> m.truth is None)
}
/// what follows the budget
pub open spec fn rt_after_b(f: &NarseseFormat, v: RtV) -> Seq<char> { ((rt_t(f, v) + v.punct) + v.stamp) + rt_tr(f, v) }
pub proof fn lemma_rt_forms(f: &NarseseFormat, v: RtV)
    ensures rt_env(f, v) == rt_b(f, v) + rt_after_b(f, v),
        rt_env(f, v).subrange(0, rt_x1(f, v).len() as int) == rt_x1(f, v),
        rt_x1(f, v).subrange(0, rt_x1p(f, v).len() as int) == rt_x1p(f, v),
        rt_x1p(f, v).subrange(0, rt_x2(f, v).len() as int) == rt_x2(f, v),
        rt_x2(f, v).subrange(rt_b(f, v).len() as int, rt_x2(f, v).len() as int) == rt_t(f, v),
        rt_env(f, v).subrange(0, rt_x1p(f, v).len() as int) == rt_x1p(f, v),
        rt_env(f, v).subrange(0, rt_x2(f, v).len() as int) == rt_x2(f, v),
        rt_env(f, v).subrange(rt_b(f, v).len() as int, rt_x2(f, v).len() as int) == rt_t(f, v),
        rt_x2(f, v).len() == rt_b(f, v).len() + rt_t(f, v).len(),
        v.truth.len() == 0 ==> rt_env(f, v) == rt_x1(f, v),
        v.stamp.len() == 0 ==> rt_x1(f, v) == rt_x1p(f, v),
        v.punct.len() == 0 ==> rt_x1p(f, v) == rt_x2(f, v),
{
    assert(rt_env(f, v) =~= rt_b(f, v) + rt_after_b(f, v));
    assert(rt_env(f, v).subrange(0, rt_x1(f, v).len() as int) =~= rt_x1(f, v));
    assert(rt_x1(f, v).subrange(0, rt_x1p(f, v).len() as int) =~= rt_x1p(f, v));
    assert(rt_x1p(f, v).subrange(0, rt_x2(f, v).len() as int) =~= rt_x2(f, v));
    assert(rt_x2(f, v).subrange(rt_b(f, v).len() as int, rt_x2(f, v).len() as int) =~= rt_t(f, v));
    assert(rt_env(f, v).subrange(0, rt_x1p(f, v).len() as int) =~= rt_x1p(f, v));
    assert(rt_env(f, v).subrange(0, rt_x2(f, v).len() as int) =~= rt_x2(f, v));
    assert(rt_env(f, v).subrange(rt_b(f, v).len() as int, rt_x2(f, v).len() as int) =~= rt_t(f, v));
    if v.truth.len() == 0 { assert(rt_env(f, v) =~= rt_x1(f, v)); }
    if v.stamp.len() == 0 { assert(rt_x1(f, v) =~= rt_x1p(f, v)); }
    if v.punct.len() == 0 { assert(rt_x1p(f, v) =~= rt_x2(f, v)); }
}

// ---- the contracts of the four item segmenters as predicates over views (so that the C02 steps
// can be proved as lemmas outside parse_items) ----
pub open spec fn views_opt(r: Option<(Vec<String>, ParseIndex)>) -> Option<(Seq<Seq<char>>, int)> {
    match r { Some(p) => Some((str_views(p.0@), p.1 as int)), None => None }
}
pub open spec fn view_opt(r: Option<(String, ParseIndex)>) -> Option<(Seq<char>, int)> {
    match r { Some(p) => Some((p.0@, p.1 as int)), None => None }
}
/// segment_budget: the budget is the text from the opening bracket at the start to the FIRST closing
/// bracket after it (all characters between them budget content); its entries are the non-empty
/// pieces between the separators; it is found whenever such a closing bracket can be reached
pub open spec fn budget_post(f: &NarseseFormat, env: Seq<char>, r: Option<(Seq<Seq<char>>, int)>) -> bool {
    let bl = f.task.budget_brackets.0@; let br = f.task.budget_brackets.1@; let sep = f.task.budget_separator@;
    &&& r matches Some(p) ==> p.1 <= env.len() && is_prefix_of(bl, env)
            && first_close_from(env, bl.len() as int, br, p.1)
            && p.0 == items_of(env.subrange(0, p.1), bl, br, sep)
            && (forall|j: int| bl.len() <= j < p.1 - br.len() ==> f.task.is_budget_content.spec_call(#[trigger] env[j]))
    &&& forall|q: int| is_prefix_of(bl, env) && #[trigger] close_reachable_p(env, bl.len() as int, br, q, &f.task.is_budget_content) ==> r is Some
}
/// segment_truth: from the LAST opening bracket before the closing bracket at the end
pub open spec fn truth_post(f: &NarseseFormat, env: Seq<char>, r: Option<(Seq<Seq<char>>, int)>) -> bool {
    let tl = f.sentence.truth_brackets.0@; let tr = f.sentence.truth_brackets.1@; let sep = f.sentence.truth_separator@;
    &&& r matches Some(p) ==> 0 <= p.1 <= env.len() && is_suffix_of(tr, env)
            && last_open_before(env, env.len() - tr.len(), tl, p.1)
            && p.0 == items_of(env.subrange(p.1, env.len() as int), tl, tr, sep)
    &&& forall|q: int| is_suffix_of(tr, env) && #[trigger] open_reachable_p(env.subrange(0, env.len() - tr.len()), tl, q, &f.sentence.is_truth_content) ==> r is Some
    &&& !is_suffix_of(tr, env) ==> r is None
}
/// segment_stamp: the stamp form matched at the end, from its last opening text, verbatim
pub open spec fn stamp_post(f: &NarseseFormat, env: Seq<char>, r: Option<(Seq<char>, int)>) -> bool {
    let m = f.sentence.stamp_brackets.suf_matched(env);
    &&& r matches Some(p) ==> 0 <= p.1 <= env.len() && (m matches Some(t)
            && last_open_before(env, env.len() - t.1@.len(), t.0@, p.1)
            && p.0 == env.subrange(p.1, env.len() as int)
            && (forall|j: int| p.1 + t.0@.len() <= j < env.len() - t.1@.len() ==> f.sentence.is_stamp_content.spec_call(#[trigger] env[j])))
    &&& m is None ==> r is None
    &&& forall|q: int| m is Some && #[trigger] open_reachable_p(env.subrange(0, env.len() - m->Some_0.1@.len()), m->Some_0.0@, q, &f.sentence.is_stamp_content) ==> r is Some
}
/// segment_punctuation: the entry of the punctuation dictionary matched at the end
pub open spec fn punct_post(f: &NarseseFormat, env: Seq<char>, r: Option<(Seq<char>, int)>) -> bool {
    &&& r matches Some(p) ==> (f.sentence.punctuations.suf_matched(env) matches Some(k) && p.0 == k@ && p.1 == env.len() - k@.len())
    &&& r is None ==> f.sentence.punctuations.suf_matched(env) is None
}

// ---- the four steps of parse_items on the text of a value ----
pub proof fn lemma_step_budget(f: &NarseseFormat, env: Seq<char>, has_budget: bool, budget: Seq<Seq<char>>, rest: Seq<char>, r: Option<(Seq<Seq<char>>, int)>)
    requires rt_budget_hyp(f, has_budget, budget, env), budget_post(f, env, r),
        has_budget ==> env == entries_text(budget, f.task.budget_brackets.0@, f.task.budget_brackets.1@, f.task.budget_separator@) + rest,
    ensures has_budget ==> (r matches Some(p) && p.0 == budget
            && p.1 == entries_text(budget, f.task.budget_brackets.0@, f.task.budget_brackets.1@, f.task.budget_separator@).len()),
        !has_budget ==> r is None,
{
    let bl = f.task.budget_brackets.0@; let br = f.task.budget_brackets.1@; let sep = f.task.budget_separator@;
    if has_budget {
        if budget.len() == 0 {
            assert(join_l(budget, sep) =~= Seq::<char>::empty());
            let b0 = bl + (Seq::<char>::empty() + br);
            assert(b0 =~= bl + br);
            assert(env.subrange(0, bl.len() as int) =~= bl);
            assert(tail(env, bl.len() as int).subrange(0, br.len() as int) =~= br);
            assert(vx_mark(bl.len() as int));
            assert(close_reachable_p(env, bl.len() as int, br, bl.len() as int, &f.task.is_budget_content));
            let p = r->Some_0;
            if p.1 - br.len() > bl.len() { assert(!is_prefix_of(br, tail(env, bl.len() as int))); assert(false); }
            assert(env.subrange(0, (bl.len() + br.len()) as int) =~= bl + br);
            assert(p.0 =~= budget);
        } else {
            lemma_list_prefix(budget, bl, br, sep, &f.task.is_budget_content, rest);
        }
    } else {
        if r is Some {
            let p = r->Some_0;
            let e = choose|e: int| #![trigger vx_mark(e)] vx_mark(e) && bl.len() <= e <= env.len()
                && (forall|j: int| bl.len() <= j <= e && j < env.len() ==> !is_prefix_of(br, #[trigger] tail(env, j)))
                && (e == env.len() || !f.task.is_budget_content.spec_call(env[e]));
            let c = p.1 - br.len();
            assert(is_prefix_of(br, env.subrange(c, env.len() as int)));
            if c <= e { assert(!is_prefix_of(br, tail(env, c))); assert(false); }
            assert(f.task.is_budget_content.spec_call(env[e]));
            assert(false);
        }
    }
}
pub proof fn lemma_step_truth(f: &NarseseFormat, env: Seq<char>, x1: Seq<char>, truth: Seq<Seq<char>>, r: Option<(Seq<Seq<char>>, int)>)
    requires rt_truth_hyp(f, truth, env), truth_post(f, env, r),
        truth.len() > 0 ==> env == x1 + entries_text(truth, f.sentence.truth_brackets.0@, f.sentence.truth_brackets.1@, f.sentence.truth_separator@),
    ensures truth.len() > 0 ==> (r matches Some(p) && p.0 == truth && p.1 == x1.len()),
        truth.len() == 0 ==> r is None,
{
    if truth.len() > 0 {
        lemma_list_suffix(truth, f.sentence.truth_brackets.0@, f.sentence.truth_brackets.1@, f.sentence.truth_separator@, &f.sentence.is_truth_content, x1);
    }
}
pub proof fn lemma_step_stamp(f: &NarseseFormat, x1: Seq<char>, x: Seq<char>, s: Seq<char>, r: Option<(Seq<char>, int)>)
    requires rt_stamp_hyp(f, x, s), x1 == x + s, stamp_post(f, x1, r)
    ensures s.len() > 0 ==> (r matches Some(p) && p.0 == s && p.1 == x.len()),
        s.len() == 0 ==> r is None,
{
    if s.len() > 0 {
        let t = f.sentence.stamp_brackets.suf_matched(x1)->Some_0;
        let c = x1.subrange(0, x1.len() - t.1@.len());
        let q = x.len() as int;
        assert(s.subrange(0, t.0@.len() as int) == t.0@);
        assert(c.subrange(0, q + t.0@.len()) =~= x + t.0@);
        assert((x + t.0@).subrange((x + t.0@).len() - t.0@.len(), (x + t.0@).len() as int) =~= t.0@);
        assert forall|j: int| q + t.0@.len() <= j < c.len() implies f.sentence.is_stamp_content.spec_call(#[trigger] c[j]) by {
            assert(c[j] == s[j - q]);
        }
        assert(vx_mark(q));
        assert(open_reachable_p(c, t.0@, q, &f.sentence.is_stamp_content));
        let p = r->Some_0;
        let lb = p.1;
        assert(last_open_before(x1, x1.len() - t.1@.len(), t.0@, lb));
        if lb < q {
            assert(x1.subrange(0, q + t.0@.len()) =~= c.subrange(0, q + t.0@.len()));
            assert(false);
        }
        if lb > q { assert(!is_suffix_of(t.0@, (x + s).subrange(0, lb + t.0@.len()))); assert(false); }
        assert(x1.subrange(q, x1.len() as int) =~= s);
    } else {
        assert(x1 =~= x);
        if r is Some {
            let p = r->Some_0;
            let t = f.sentence.stamp_brackets.suf_matched(x1)->Some_0;
            let c = x1.subrange(0, x1.len() - t.1@.len());
            let e = choose|e: int| #![trigger vx_mark(e)] vx_mark(e) && 0 <= e <= c.len()
                && (forall|j: int| e <= j <= c.len() ==> !is_suffix_of(t.0@, #[trigger] c.subrange(0, j)))
                && (e == 0 || !f.sentence.is_stamp_content.spec_call(c[e - 1]));
            let lb = p.1;
            let q = lb + t.0@.len();
            assert(last_open_before(x1, x1.len() - t.1@.len(), t.0@, lb));
            assert(x1.subrange(0, q) =~= c.subrange(0, q));
            if q >= e { assert(!is_suffix_of(t.0@, c.subrange(0, q))); assert(false); }
            assert(c[e - 1] == x1[e - 1]);
            assert(f.sentence.is_stamp_content.spec_call(x1[e - 1]));
            assert(false);
        }
    }
}
pub proof fn lemma_step_punct(f: &NarseseFormat, x1p: Seq<char>, x2: Seq<char>, punct: Seq<char>, r: Option<(Seq<char>, int)>)
    requires rt_punct_hyp(f, x2, punct), x1p == x2 + punct, punct_post(f, x1p, r)
    ensures punct.len() > 0 ==> (r matches Some(p) && p.0 == punct && p.1 == x2.len()),
        punct.len() == 0 ==> r is None,
{
    if punct.len() == 0 { assert(x1p =~= x2); }
}

// ---- the atom name scan, as a predicate (so that its consequences are proved outside segment_atom) ----
/// maximal munch: from `start` to `rb` every character is an identifier character at which no copula
/// starts; the character at `rb` (if any) is not
pub open spec fn atom_scan(f: &NarseseFormat, env: Seq<char>, start: int, rb: int) -> bool {
    &&& start <= rb <= env.len()
    &&& forall|j: int| start <= j < rb ==> #[trigger] f.atom.is_identifier.spec_call(env[j]) && f.statement.copulas.pre_matched(tail(env, j)) is None
    &&& rb < env.len() ==> !(f.atom.is_identifier.spec_call(env[rb]) && f.statement.copulas.pre_matched(tail(env, rb)) is None)
}
/// C02: on the text of an atom the scan ends exactly where the name ends
pub proof fn lemma_atom_rt(f: &NarseseFormat, env: Seq<char>, t: Term, rest: Seq<char>, start: int, rb: int)
    requires rt_hyp(f, env, t, rest), t is Atom, start == t->prefix@.len(), atom_scan(f, env, start, rb)
    ensures rb == t->prefix@.len() + t->name@.len(), env.subrange(start, rb) == t->name@, rb == env.len() - rest.len()
{
    let pf = t->prefix@; let nm = t->name@;
    lemma_tail_concat(pf, nm + rest);
    lemma_tail_concat(nm, rest);
    assert(env == pf + (nm + rest));
    assert forall|j: int| 0 <= j < nm.len() implies env[pf.len() + j] == nm[j] && tail(env, pf.len() + j) == tail(nm + rest, j) by {
        assert(tail(env, pf.len() + j) =~= tail(nm + rest, j));
    }
    if rb < pf.len() + nm.len() {
        let j = rb - pf.len();
        assert(f.atom.is_identifier.spec_call(nm[j]));
        assert(false);
    }
    if rb > pf.len() + nm.len() {
        let j = (pf.len() + nm.len()) as int;
        assert(tail(env, j) =~= rest);
        assert(env[j] == rest[0]);
        assert(f.atom.is_identifier.spec_call(env[j]));
        assert(false);
    }
    assert(env.subrange(start, rb) =~= nm);
}

// ---- C02 at the whole-value entry points ----
pub open spec fn rt_sentence(s: Sentence, v: RtV) -> bool {
    term_eqv(s.term, v.term) && s.punctuation@ == v.punct && s.stamp@ == v.stamp && str_views(s.truth@) == v.truth
}
/// the parsed value is v: same kind, same strings
pub open spec fn rt_narsese(n: Narsese, v: RtV) -> bool {
    if v.punct.len() == 0 { n matches NarseseValue::Term(t) && term_eqv(t, v.term) }
    else if v.has_budget { n matches NarseseValue::Task(t) && str_views(t.budget@) == v.budget && rt_sentence(t.sentence, v) }
    else { n matches NarseseValue::Sentence(s) && rt_sentence(s, v) }
}
/// a value without punctuation is a bare term: it has no budget, stamp or truth
pub open spec fn rt_kind_ok(v: RtV) -> bool {
    v.punct.len() == 0 ==> !v.has_budget && v.stamp.len() == 0 && v.truth.len() == 0
}
pub open spec fn rt_entry_v(f: &NarseseFormat, input: Seq<char>, r: ParseResult<Narsese>) -> bool {
    forall|v: RtV| #[trigger] rt_vhyp(f, idealized(f, input), v) && rt_kind_ok(v) ==> (r matches Ok(n) && rt_narsese(n, v))
}
