// ---- hand written specifications for unit lexical_parser ----
// nar_dev_utils' dictionary types are opaque; their matching functions are *provided* trait
// methods, for which Verus takes no assume_specification.  The three local traits below shadow
// the glob import `nar_dev_utils::{PrefixMatch, SuffixMatch, StartsWithStr}`; each impl forwards
// to the real nar_dev_utils method (external_body) and carries the ASSUMED contract (A2):
//   * match_prefix_char_slice / match_suffix_char_slice return a dictionary entry whose key is
//     an EXACT prefix / suffix of the slice (they compare through String::starts_with/ends_with);
//   * [char]::starts_with_str is LENIENT: it also returns true when the slice ends before the
//     needle does (this is what made the unfixed parser index past the end, finding F5).
// (the external type specifications of the three dictionary types live in common/lexformat.vspec)

pub open spec fn is_prefix_of(p: Seq<char>, s: Seq<char>) -> bool {
    p.len() <= s.len() && s.subrange(0, p.len() as int) == p
}
pub open spec fn is_suffix_of(p: Seq<char>, s: Seq<char>) -> bool {
    p.len() <= s.len() && s.subrange(s.len() - p.len(), s.len() as int) == p
}
/// see lenient note above
pub open spec fn lenient_prefix(s: Seq<char>, kw: Seq<char>) -> bool {
    kw.len() == 0 || (s.len() > 0 && forall|j: int| 0 <= j < kw.len() && j < s.len() ==> s[j] == kw[j])
}

/// the text a dictionary entry is matched by: the entry itself for plain keywords, the left /
/// right bracket for bracket pairs
pub trait KeyOf {
    spec fn pre(&self) -> Seq<char>;
    spec fn suf(&self) -> Seq<char>;
}
impl KeyOf for String {
    open spec fn pre(&self) -> Seq<char> { self@ }
    open spec fn suf(&self) -> Seq<char> { self@ }
}
impl KeyOf for (String, String) {
    open spec fn pre(&self) -> Seq<char> { self.0@ }
    open spec fn suf(&self) -> Seq<char> { self.1@ }
}
/// A7 (language guarantee): a slice never has more than isize::MAX elements
#[verifier::external_body]
pub proof fn axiom_slice_len_bound(s: &[char])
    ensures s@.len() <= isize::MAX
{}
pub trait PrefixMatch<T: KeyOf> {
    /// "no key of this dictionary is the empty string" (needed for progress of the recursion)
    spec fn keys_nonempty(&self) -> bool;
    /// the entry a lookup selects is a function of the dictionary and the text (A2/A3)
    spec fn pre_matched(&self, s: Seq<char>) -> Option<T>;
    /// a "dictionary" that is a single bracket pair has that pair as its only entry
    spec fn only_entry(&self) -> Option<T>;
    fn match_prefix_char_slice(&self, to_match: &[char]) -> (r: Option<&T>)
        ensures r matches Some(t) ==> is_prefix_of(t.pre(), to_match@)
            && (self.keys_nonempty() ==> t.pre().len() > 0),
            r matches Some(t) ==> self.pre_matched(to_match@) == Some(*t),
            r is None ==> self.pre_matched(to_match@) is None,
            r matches Some(t) ==> (self.only_entry() matches Some(e) ==> *t == e),
            // a single bracket pair matches exactly when its opening bracket is a prefix
            self.only_entry() matches Some(e) ==> (r is Some <==> is_prefix_of(e.pre(), to_match@));
}
pub trait SuffixMatch<T: KeyOf> {
    spec fn suf_matched(&self, s: Seq<char>) -> Option<T>;
    fn match_suffix_char_slice(&self, to_match: &[char]) -> (r: Option<&T>)
        ensures r matches Some(t) ==> is_suffix_of(t.suf(), to_match@),
            r matches Some(t) ==> self.suf_matched(to_match@) == Some(*t),
            r is None ==> self.suf_matched(to_match@) is None;
}
/// A2: `<[char]>::starts_with` / `ends_with` compare exactly (vstd ties the result to an
/// uninterpreted-for-us `spec_slice_starts_with` under `char: obeys_eq_spec`; this states what
/// std documents: "returns true if needle is a prefix / suffix of the slice")
#[verifier::external_body]
pub proof fn axiom_char_eq()
    ensures <char as vstd::std_specs::cmp::PartialEqSpec>::obeys_eq_spec(),
{}
#[verifier::external_body]
pub broadcast proof fn axiom_char_slice_starts_with(a: &[char], b: &[char])
    ensures
        #[trigger] vstd::std_specs::slice::spec_slice_starts_with(a, b) == is_prefix_of(b@, a@),
{}
#[verifier::external_body]
pub broadcast proof fn axiom_char_slice_ends_with(a: &[char], b: &[char])
    ensures
        #[trigger] vstd::std_specs::slice::spec_slice_ends_with(a, b) == is_suffix_of(b@, a@),
{}
/// C03/C15 segmentation reference, prefix side ("budget"): scanning from `start`, `rb` is the
/// right border of the FIRST occurrence of the closing bracket `right`
pub open spec fn first_close_from(env: Seq<char>, start: int, right: Seq<char>, rb: int) -> bool {
    &&& start + right.len() <= rb <= env.len()
    &&& is_prefix_of(right, env.subrange(rb - right.len(), env.len() as int))
    &&& forall|j: int| start <= j < rb - right.len() ==> !is_prefix_of(right, #[trigger] env.subrange(j, env.len() as int))
}
/// suffix side ("truth", "stamp"): scanning leftwards from `end`, `lb` is the left border of
/// the LAST occurrence of the opening bracket `left` that ends at or before `end`
pub open spec fn last_open_before(env: Seq<char>, end: int, left: Seq<char>, lb: int) -> bool {
    &&& 0 <= lb && lb + left.len() <= end <= env.len()
    &&& is_suffix_of(left, env.subrange(0, lb + left.len()))
    &&& forall|j: int| lb + left.len() < j <= end ==> !is_suffix_of(left, #[trigger] env.subrange(0, j))
}
pub trait StartsWithStr {
    spec fn chars_of(&self) -> Seq<char>;
    fn starts_with_str(&self, needle: &str) -> (r: bool)
        ensures r == lenient_prefix(self.chars_of(), needle@);
}
impl StartsWithStr for [char] {
    open spec fn chars_of(&self) -> Seq<char> { self@ }
    #[verifier::external_body]
    fn starts_with_str(&self, needle: &str) -> (r: bool) { nar_dev_utils::StartsWithStr::starts_with_str(self, needle) }
}
impl PrefixMatch<String> for nar_dev_utils::PrefixMatchDict {
    uninterp spec fn keys_nonempty(&self) -> bool;
    uninterp spec fn pre_matched(&self, s: Seq<char>) -> Option<String>;
    open spec fn only_entry(&self) -> Option<String> { None }
    #[verifier::external_body]
    fn match_prefix_char_slice(&self, to_match: &[char]) -> (r: Option<&String>) { nar_dev_utils::PrefixMatch::match_prefix_char_slice(self, to_match) }
}
impl PrefixMatch<(String, String)> for nar_dev_utils::BiFixMatchDictPair {
    uninterp spec fn keys_nonempty(&self) -> bool;
    uninterp spec fn pre_matched(&self, s: Seq<char>) -> Option<(String, String)>;
    open spec fn only_entry(&self) -> Option<(String, String)> { None }
    #[verifier::external_body]
    fn match_prefix_char_slice(&self, to_match: &[char]) -> (r: Option<&(String, String)>) { nar_dev_utils::PrefixMatch::match_prefix_char_slice(self, to_match) }
}
impl PrefixMatch<(String, String)> for (String, String) {
    open spec fn keys_nonempty(&self) -> bool { self.0@.len() > 0 }
    uninterp spec fn pre_matched(&self, s: Seq<char>) -> Option<(String, String)>;
    open spec fn only_entry(&self) -> Option<(String, String)> { Some(*self) }
    #[verifier::external_body]
    fn match_prefix_char_slice(&self, to_match: &[char]) -> (r: Option<&(String, String)>) { nar_dev_utils::PrefixMatch::match_prefix_char_slice(self, to_match) }
}
impl SuffixMatch<String> for nar_dev_utils::SuffixMatchDict {
    uninterp spec fn suf_matched(&self, s: Seq<char>) -> Option<String>;
    #[verifier::external_body]
    fn match_suffix_char_slice(&self, to_match: &[char]) -> (r: Option<&String>) { nar_dev_utils::SuffixMatch::match_suffix_char_slice(self, to_match) }
}
impl SuffixMatch<(String, String)> for nar_dev_utils::SuffixMatchDictPair<String> {
    uninterp spec fn suf_matched(&self, s: Seq<char>) -> Option<(String, String)>;
    #[verifier::external_body]
    fn match_suffix_char_slice(&self, to_match: &[char]) -> (r: Option<&(String, String)>) { nar_dev_utils::SuffixMatch::match_suffix_char_slice(self, to_match) }
}
impl SuffixMatch<(String, String)> for (String, String) {
    uninterp spec fn suf_matched(&self, s: Seq<char>) -> Option<(String, String)>;
    #[verifier::external_body]
    fn match_suffix_char_slice(&self, to_match: &[char]) -> (r: Option<&(String, String)>) { nar_dev_utils::SuffixMatch::match_suffix_char_slice(self, to_match) }
}

/// the last-opening-bracket fact found on the cut environment `env[..end]` holds on `env`
pub proof fn lemma_last_open_prefix(env: Seq<char>, end: int, left: Seq<char>, lb: int)
    requires 0 <= end <= env.len(), last_open_before(env.subrange(0, end), end, left, lb)
    ensures last_open_before(env, end, left, lb)
{
    let cut = env.subrange(0, end);
    assert forall|j: int| lb + left.len() < j <= end implies !is_suffix_of(left, #[trigger] env.subrange(0, j)) by {
        assert(cut.subrange(0, j) =~= env.subrange(0, j));
    }
    assert(cut.subrange(0, lb + left.len()) =~= env.subrange(0, lb + left.len()));
}

/// R16: `String::from_iter(<char slice>)` -> this helper (assumed: builds the string of those chars)
#[verifier::external_body]
pub fn vx_string_from_chars(s: &[char]) -> (r: String)
    ensures r@ == s@
{ String::from_iter(s) }

/// side conditions on a lexical format that the recursive segmentation needs to make progress
pub open spec fn lex_format_wf(f: &NarseseFormat) -> bool {
    // opening brackets of sets, compounds and statements are non-empty keywords
    &&& f.compound.set_brackets.keys_nonempty()
    &&& f.compound.brackets.0@.len() > 0
    &&& f.statement.brackets.0@.len() > 0
}

// ------------------------------------------------------------------------------------------
// C03 (lexical side): node-by-node shape of what the recursive term segmentation returns.
// `seg(f, env, t, n)` stands for "segment_term on the text `env` may return the term t and the
// length n": the INDUCTIVE relation generated by the four node shapes below (introduction rule
// only: axiom_seg_intro).  It pins down WHICH slice every component is parsed from, in which
// order, where the keyword of the node is looked up and in which dictionary.
// ------------------------------------------------------------------------------------------
pub uninterp spec fn seg(f: &NarseseFormat, env: Seq<char>, t: Term, n: int) -> bool;
#[verifier::external_body]
pub proof fn axiom_seg_intro(f: &NarseseFormat, env: Seq<char>, t: Term, n: int)
    requires lex_atom_node(f, env, t, n) || lex_stmt_node(f, env, t, n)
        || lex_list_node(f, env, t, n)
    ensures seg(f, env, t, n)
{}
pub open spec fn tail(env: Seq<char>, i: int) -> Seq<char> { env.subrange(i, env.len() as int) }
pub open spec fn min_int(a: int, b: int) -> int { if a <= b { a } else { b } }
/// atom <- prefix name: the prefix is the dictionary entry matched at the start, the name is the
/// maximal run of identifier characters that does not run into a copula
pub open spec fn lex_atom_node(f: &NarseseFormat, env: Seq<char>, t: Term, n: int) -> bool {
    t matches Term::Atom { prefix, name }
    && f.atom.prefixes.pre_matched(env) == Some(prefix)
    && prefix@.len() <= n <= env.len()
    && name@ == env.subrange(prefix@.len() as int, n)
    && (forall|j: int| prefix@.len() <= j < n ==> #[trigger] f.atom.is_identifier.spec_call(env[j]) && f.statement.copulas.pre_matched(tail(env, j)) is None)
    && (n < env.len() ==> !(f.atom.is_identifier.spec_call(env[n]) && f.statement.copulas.pre_matched(tail(env, n)) is None))
}
/// statement <- '<' subject copula predicate '>': the subject is parsed right after the opening
/// bracket, the copula is the entry of the COPULA dictionary matched right after the subject, the
/// predicate follows it, then the closing bracket (leniently: it may be cut off by the end)
pub open spec fn lex_stmt_node(f: &NarseseFormat, env: Seq<char>, t: Term, n: int) -> bool {
    t matches Term::Statement { copula, subject, predicate }
    && exists|sl: int, ps: int, pl: int|
        #![trigger seg(f, tail(env, f.statement.brackets.0@.len() as int), *subject, sl), seg(f, tail(env, ps), *predicate, pl)]
        f.statement.brackets.pre_matched(env) is Some
        && seg(f, tail(env, f.statement.brackets.0@.len() as int), *subject, sl)
        && (f.statement.copulas.pre_matched(tail(env, f.statement.brackets.0@.len() + sl)) matches Some(k) && k@ == copula@)
        && ps == f.statement.brackets.0@.len() + sl + copula@.len()
        && seg(f, tail(env, ps), *predicate, pl)
        && lenient_prefix(tail(env, ps + pl), f.statement.brackets.1@)
        && n == min_int(ps + pl + f.statement.brackets.1@.len(), env.len() as int)
}
/// where the next component starts when the cursor is at p: one separator is skipped if it
/// stands there (leniently, clamped to the end of the text)
pub open spec fn sep_skip(f: &NarseseFormat, env: Seq<char>, p: int) -> int {
    if lenient_prefix(tail(env, p), f.compound.separator@) { min_int(p + f.compound.separator@.len(), env.len() as int) } else { p }
}
/// (trigger marker: a recursive call cannot serve as a quantifier trigger)
pub open spec fn vx_mark(p: int) -> bool { true }
/// the listed terms, parsed one after the other from `start`, end at `pos`: before every term
/// (the first one of a set excepted: `first_plain`) the closing bracket is NOT at the cursor and
/// one separator is skipped if present
pub open spec fn lex_items(f: &NarseseFormat, env: Seq<char>, right: Seq<char>, first_plain: bool, start: int, terms: Seq<Term>, pos: int) -> bool
    decreases terms.len()
{
    if terms.len() == 0 { pos == start }
    else {
        exists|prev: int, q: int, ln: int|
            #![trigger vx_mark(prev), seg(f, tail(env, q), terms.last(), ln)]
            vx_mark(prev) && lex_items(f, env, right, first_plain, start, terms.drop_last(), prev)
            && seg(f, tail(env, q), terms.last(), ln)
            && pos == q + ln
            && (if first_plain && terms.len() == 1 { q == prev }
                else { !lenient_prefix(tail(env, prev), right) && q == sep_skip(f, env, prev) })
    }
}
/// compound <- '(' connecter (sep? term)* ')' with the connecter looked up in the CONNECTER
/// dictionary right after the opening bracket; set <- left term (sep? term)* right with the
/// bracket pair looked up in the set-bracket dictionary
pub open spec fn lex_list_node(f: &NarseseFormat, env: Seq<char>, t: Term, n: int) -> bool {
    match t {
        Term::Compound { connecter, terms } =>
            f.compound.brackets.pre_matched(env) is Some
            && (f.compound.connecters.pre_matched(tail(env, f.compound.brackets.0@.len() as int)) matches Some(k) && k@ == connecter@)
            && exists|st: int, pos: int| st == f.compound.brackets.0@.len() + connecter@.len()
                && #[trigger] lex_items(f, env, f.compound.brackets.1@, false, st, terms@, pos)
                && lenient_prefix(tail(env, pos), f.compound.brackets.1@)
                && n == min_int(pos + f.compound.brackets.1@.len(), env.len() as int),
        Term::Set { left_bracket, terms, right_bracket } =>
            (f.compound.set_brackets.pre_matched(env) matches Some(p) && p.0@ == left_bracket@ && p.1@ == right_bracket@)
            && terms@.len() >= 1
            && exists|pos: int| #[trigger] lex_items(f, env, right_bracket@, true, left_bracket@.len() as int, terms@, pos)
                && lenient_prefix(tail(env, pos), right_bracket@)
                && n == min_int(pos + right_bracket@.len(), env.len() as int),
        _ => false,
    }
}
/// one more parsed term extends the list
pub proof fn lemma_lex_items_push(f: &NarseseFormat, env: Seq<char>, right: Seq<char>, first_plain: bool, start: int, terms: Seq<Term>, prev: int, q: int, t: Term, ln: int)
    requires
        lex_items(f, env, right, first_plain, start, terms, prev),
        seg(f, tail(env, q), t, ln),
        if first_plain && terms.len() == 0 { q == prev } else { !lenient_prefix(tail(env, prev), right) && q == sep_skip(f, env, prev) },
    ensures lex_items(f, env, right, first_plain, start, terms.push(t), q + ln)
{
    let nt = terms.push(t);
    assert(nt.drop_last() =~= terms);
    assert(nt.last() == t);
    assert(vx_mark(prev));
    assert(lex_items(f, env, right, first_plain, start, nt.drop_last(), prev));
    assert(seg(f, tail(env, q), nt.last(), ln));
}

// ------------------------------------------------------------------------------------------
// C02 (term level): the recursive term segmentation INVERTS the lexical formatter's layout.
// `ns_k(f, t, rest)` is the text of term t as the lexical formatter lays it out (lex_text, unit
// lex_formatter) with the inter-token spaces removed (what idealize_env leaves of it), followed by
// the text `rest` - written in continuation style so that peeling a token off the front never needs
// re-association.  `rt_term(f, t, rest)` collects, node by node, the hypotheses of the property
// ("strings drawn from the format's own vocabulary, names that contain no keyword"): every
// dictionary lookup the parser performs on this text selects the term's own keyword, names consist
// of identifier characters and stop before `rest`, closing brackets are not mistaken for
// separators, compounds and sets have at least one component (the README grammar's rule; a
// component-free compound is laid out as `(&, )`, which no parser of that grammar accepts).
// The contract on segment_term then reads: on such a text the parser returns exactly t (field for
// field, `term_eqv`) and the number of characters of t's text.
// ------------------------------------------------------------------------------------------
pub open spec fn ns_k(f: &NarseseFormat, t: Term, rest: Seq<char>) -> Seq<char>
    decreases t, 0nat
{
    match t {
        Term::Atom { prefix, name } => prefix@ + (name@ + rest),
        Term::Compound { connecter, terms } =>
            f.compound.brackets.0@ + (connecter@ + items_k(f, terms, 0, false, f.compound.brackets.1@, rest)),
        Term::Set { left_bracket, terms, right_bracket } =>
            left_bracket@ + items_k(f, terms, 0, true, right_bracket@, rest),
        Term::Statement { copula, subject, predicate } =>
            f.statement.brackets.0@ + ns_k(f, *subject, copula@ + ns_k(f, *predicate, f.statement.brackets.1@ + rest)),
    }
}
/// components k.. of a component list, each preceded by the separator (the first one of a set
/// excepted: `plain`), then the closing bracket, then `rest`
pub open spec fn items_k(f: &NarseseFormat, v: Vec<Term>, k: nat, plain: bool, right: Seq<char>, rest: Seq<char>) -> Seq<char>
    decreases v, v@.len() - k
{
    if k >= v@.len() { right + rest }
    else if plain && k == 0 { ns_k(f, v@[k as int], items_k(f, v, k + 1, plain, right, rest)) }
    else { f.compound.separator@ + ns_k(f, v@[k as int], items_k(f, v, k + 1, plain, right, rest)) }
}
/// field-for-field equality of lexical terms (strings compared by their characters)
pub open spec fn term_eqv(a: Term, b: Term) -> bool
    decreases a, 0nat
{
    match a {
        Term::Atom { prefix, name } => b matches Term::Atom { prefix: p2, name: n2 } && prefix@ == p2@ && name@ == n2@,
        Term::Compound { connecter, terms } => b matches Term::Compound { connecter: c2, terms: t2 }
            && connecter@ == c2@ && terms@.len() == t2@.len() && terms_eqv(terms, t2@, terms@.len()),
        Term::Set { left_bracket, terms, right_bracket } => b matches Term::Set { left_bracket: l2, terms: t2, right_bracket: r2 }
            && left_bracket@ == l2@ && right_bracket@ == r2@ && terms@.len() == t2@.len() && terms_eqv(terms, t2@, terms@.len()),
        Term::Statement { copula, subject, predicate } => b matches Term::Statement { copula: c2, subject: s2, predicate: p2 }
            && copula@ == c2@ && term_eqv(*subject, *s2) && term_eqv(*predicate, *p2),
    }
}
/// the first n components are pairwise term_eqv
pub open spec fn terms_eqv(v: Vec<Term>, w: Seq<Term>, n: nat) -> bool
    decreases v, n
{
    if n == 0 { true } else if n > v@.len() || n > w.len() { false }
    else { terms_eqv(v, w, (n - 1) as nat) && term_eqv(v@[n - 1], w[n - 1]) }
}
/// hypotheses of the round trip for term t followed by `rest` (see the header comment)
pub open spec fn rt_term(f: &NarseseFormat, t: Term, rest: Seq<char>) -> bool
    decreases t, 0nat
{
    let env = ns_k(f, t, rest);
    match t {
        Term::Atom { prefix, name } =>
            // not taken for a set, a compound or a statement
            f.compound.set_brackets.pre_matched(env) is None
            && !is_prefix_of(f.compound.brackets.0@, env)
            && !is_prefix_of(f.statement.brackets.0@, env)
            // the prefix dictionary selects the atom's own prefix
            && (f.atom.prefixes.pre_matched(env) matches Some(p) && p@ == prefix@)
            && prefix@.len() + name@.len() > 0
            // the name consists of identifier characters, no copula starts inside it ...
            && (forall|j: int| 0 <= j < name@.len() ==> f.atom.is_identifier.spec_call(#[trigger] name@[j])
                    && f.statement.copulas.pre_matched(tail(name@ + rest, j)) is None)
            // ... and it ends where `rest` starts
            && (rest.len() > 0 ==> !(f.atom.is_identifier.spec_call(rest[0]) && f.statement.copulas.pre_matched(rest) is None)),
        Term::Compound { connecter, terms } =>
            f.compound.set_brackets.pre_matched(env) is None
            && terms@.len() >= 1
            && (f.compound.connecters.pre_matched(connecter@ + items_k(f, terms, 0, false, f.compound.brackets.1@, rest)) matches Some(k) && k@ == connecter@)
            && rt_items(f, terms, 0, false, f.compound.brackets.1@, rest),
        Term::Set { left_bracket, terms, right_bracket } =>
            (f.compound.set_brackets.pre_matched(env) matches Some(p) && p.0@ == left_bracket@ && p.1@ == right_bracket@)
            && terms@.len() >= 1
            && rt_items(f, terms, 0, true, right_bracket@, rest),
        Term::Statement { copula, subject, predicate } => {
            let after_subject = copula@ + ns_k(f, *predicate, f.statement.brackets.1@ + rest);
            f.compound.set_brackets.pre_matched(env) is None
            && !is_prefix_of(f.compound.brackets.0@, env)
            && rt_term(f, *subject, after_subject)
            && (f.statement.copulas.pre_matched(after_subject) matches Some(k) && k@ == copula@)
            && rt_term(f, *predicate, f.statement.brackets.1@ + rest)
        },
    }
}
pub open spec fn rt_items(f: &NarseseFormat, v: Vec<Term>, k: nat, plain: bool, right: Seq<char>, rest: Seq<char>) -> bool
    decreases v, v@.len() - k
{
    if k >= v@.len() { true } else {
        // the closing bracket is not seen where a component starts
        (plain && k == 0 || !lenient_prefix(items_k(f, v, k, plain, right, rest), right))
        && rt_term(f, v@[k as int], items_k(f, v, k + 1, plain, right, rest))
        && rt_items(f, v, k + 1, plain, right, rest)
    }
}
pub open spec fn rt_hyp(f: &NarseseFormat, env: Seq<char>, t: Term, rest: Seq<char>) -> bool {
    env == ns_k(f, t, rest) && rt_term(f, t, rest)
}
pub open spec fn rt_res(r: ParseResult<(Term, ParseIndex)>, env: Seq<char>, t: Term, rest: Seq<char>) -> bool {
    r matches Ok(p) && term_eqv(p.0, t) && p.1 == env.len() - rest.len()
}
/// the text of a term followed by `rest` ends with `rest`
pub proof fn lemma_ns_k_ends(f: &NarseseFormat, t: Term, rest: Seq<char>)
    ensures ns_k(f, t, rest).len() >= rest.len(),
        tail(ns_k(f, t, rest), ns_k(f, t, rest).len() - rest.len()) == rest,
    decreases t, 0nat
{
    let env = ns_k(f, t, rest);
    match t {
        Term::Atom { prefix, name } => {
            assert(tail(env, env.len() - rest.len()) =~= rest);
        },
        Term::Compound { connecter, terms } => {
            let it = items_k(f, terms, 0, false, f.compound.brackets.1@, rest);
            lemma_items_k_ends(f, terms, 0, false, f.compound.brackets.1@, rest);
            assert(tail(env, env.len() - rest.len()) =~= tail(it, it.len() - rest.len()));
        },
        Term::Set { left_bracket, terms, right_bracket } => {
            let it = items_k(f, terms, 0, true, right_bracket@, rest);
            lemma_items_k_ends(f, terms, 0, true, right_bracket@, rest);
            assert(tail(env, env.len() - rest.len()) =~= tail(it, it.len() - rest.len()));
        },
        Term::Statement { copula, subject, predicate } => {
            let r2 = f.statement.brackets.1@ + rest;
            let p = ns_k(f, *predicate, r2);
            let c = copula@ + p;
            let s = ns_k(f, *subject, c);
            lemma_ns_k_ends(f, *predicate, r2);
            lemma_ns_k_ends(f, *subject, c);
            assert(tail(r2, r2.len() - rest.len()) =~= rest);
            assert(tail(p, p.len() - rest.len()) =~= tail(tail(p, p.len() - r2.len()), r2.len() - rest.len()));
            assert(tail(c, c.len() - rest.len()) =~= tail(p, p.len() - rest.len()));
            assert(tail(s, s.len() - rest.len()) =~= tail(tail(s, s.len() - c.len()), c.len() - rest.len()));
            assert(tail(env, env.len() - rest.len()) =~= tail(s, s.len() - rest.len()));
        },
    }
}
pub proof fn lemma_items_k_ends(f: &NarseseFormat, v: Vec<Term>, k: nat, plain: bool, right: Seq<char>, rest: Seq<char>)
    ensures items_k(f, v, k, plain, right, rest).len() >= rest.len(),
        tail(items_k(f, v, k, plain, right, rest), items_k(f, v, k, plain, right, rest).len() - rest.len()) == rest,
    decreases v, v@.len() - k
{
    let it = items_k(f, v, k, plain, right, rest);
    if k >= v@.len() {
        assert(tail(it, it.len() - rest.len()) =~= rest);
    } else {
        let nx = items_k(f, v, k + 1, plain, right, rest);
        let e = ns_k(f, v@[k as int], nx);
        lemma_items_k_ends(f, v, k + 1, plain, right, rest);
        lemma_ns_k_ends(f, v@[k as int], nx);
        assert(tail(e, e.len() - rest.len()) =~= tail(tail(e, e.len() - nx.len()), nx.len() - rest.len()));
        if plain && k == 0 {
        } else {
            assert(tail(it, it.len() - rest.len()) =~= tail(e, e.len() - rest.len()));
        }
    }
}
/// skipping a whole term: what follows it in the text is `rest`
pub proof fn lemma_skip_term(f: &NarseseFormat, env: Seq<char>, at: int, t: Term, rest: Seq<char>)
    requires 0 <= at <= env.len(), tail(env, at) == ns_k(f, t, rest)
    ensures at + (ns_k(f, t, rest).len() - rest.len()) <= env.len(),
        tail(env, at + (ns_k(f, t, rest).len() - rest.len())) == rest,
{
    lemma_ns_k_ends(f, t, rest);
    let x = ns_k(f, t, rest);
    assert(tail(env, at + (x.len() - rest.len())) =~= tail(tail(env, at), x.len() - rest.len()));
}
/// peeling a keyword off the front
pub proof fn lemma_tail_concat(a: Seq<char>, b: Seq<char>)
    ensures tail(a + b, a.len() as int) == b, is_prefix_of(a, a + b), lenient_prefix(a + b, a),
{
    assert(tail(a + b, a.len() as int) =~= b);
    assert((a + b).subrange(0, a.len() as int) =~= a);
}
pub proof fn lemma_tail_tail(env: Seq<char>, i: int, j: int)
    requires 0 <= i, 0 <= j, i + j <= env.len()
    ensures tail(tail(env, i), j) == tail(env, i + j)
{
    assert(tail(tail(env, i), j) =~= tail(env, i + j));
}

/// what follows the subject of a statement in its text
pub open spec fn st_after_subject(f: &NarseseFormat, t: Term, rest: Seq<char>) -> Seq<char> {
    t->copula@ + ns_k(f, *t->predicate, f.statement.brackets.1@ + rest)
}
/// C02 loop invariant of the component loops: the components parsed so far are the first ones of
/// the term's list, the cursor stands where the remaining ones (then the closing bracket, then
/// `rest`) start, and the hypotheses for the remaining ones hold
pub open spec fn list_inv(f: &NarseseFormat, env: Seq<char>, tv: Vec<Term>, got: Seq<Term>, pos: int, plain: bool, right: Seq<char>, rest: Seq<char>) -> bool {
    &&& got.len() <= tv@.len()
    &&& forall|i: int| 0 <= i < got.len() ==> term_eqv(#[trigger] got[i], tv@[i])
    &&& 0 <= pos <= env.len()
    &&& tail(env, pos) == items_k(f, tv, got.len(), plain, right, rest)
    &&& rt_items(f, tv, got.len(), plain, right, rest)
}
pub proof fn lemma_terms_eqv(v: Vec<Term>, w: Seq<Term>, n: nat)
    requires n <= v@.len(), n <= w.len(), forall|i: int| 0 <= i < n ==> term_eqv(#[trigger] v@[i], w[i])
    ensures terms_eqv(v, w, n)
    decreases n
{
    if n > 0 { lemma_terms_eqv(v, w, (n - 1) as nat); }
}

/// the text that reaches the term segmentation for the input string `input`
pub open spec fn idealized(f: &NarseseFormat, input: Seq<char>) -> Seq<char> {
    if f.space.remove_spaces_before_parse { strip_spaces(input, &f.space.is_for_parse) } else { input }
}
/// C02 at the entry points: a string that idealizes to the formatter's text of t parses to t
pub open spec fn rt_entry(f: &NarseseFormat, input: Seq<char>, r: ParseResult<Term>) -> bool {
    forall|t: Term| #[trigger] rt_hyp(f, idealized(f, input), t, Seq::<char>::empty()) ==> (r matches Ok(t2) && term_eqv(t2, t))
}
