// ---- hand written specifications for unit lexical_tables (no repository code) ----
// The lexical formats are built at run time from string literals by nar_dev_utils' dictionary
// macros (`Dict::default()` followed by one `insert` per keyword).  The dictionaries are
// external types; their ASSUMED contracts (A2) are read off the dependency's source:
//   * XFixMatchDict (= PrefixMatchDict = SuffixMatchDict = BiFixMatchDict): a sorted,
//     duplicate-free Vec<String>; `insert` adds the key unless it is already there => a set;
//   * BiFixMatchDictPair::insert((prefix, suffix)): inserted unless the suffix or the prefix is
//     already a key;
//   * SuffixMatchDictPair<String>::insert((associated, suffix)): inserted unless the suffix is
//     already a key.
pub uninterp spec fn dict_keys(d: &nar_dev_utils::PrefixMatchDict) -> Set<Seq<char>>;
pub uninterp spec fn bi_pairs(d: &nar_dev_utils::BiFixMatchDictPair) -> Set<(Seq<char>, Seq<char>)>;
/// suffix -> associated value
pub uninterp spec fn suf_map<T>(d: &nar_dev_utils::SuffixMatchDictPair<T>) -> Map<Seq<char>, T>;

pub assume_specification[ <nar_dev_utils::PrefixMatchDict as Default>::default ]() -> (r: nar_dev_utils::PrefixMatchDict)
    ensures dict_keys(&r) == Set::<Seq<char>>::empty();
pub assume_specification[ nar_dev_utils::PrefixMatchDict::insert ](d: &mut nar_dev_utils::PrefixMatchDict, x: String)
    ensures dict_keys(final(d)) == dict_keys(old(d)).insert(x@);
pub assume_specification[ <nar_dev_utils::BiFixMatchDictPair as Default>::default ]() -> (r: nar_dev_utils::BiFixMatchDictPair)
    ensures bi_pairs(&r) == Set::<(Seq<char>, Seq<char>)>::empty();
pub assume_specification[ nar_dev_utils::BiFixMatchDictPair::insert ](d: &mut nar_dev_utils::BiFixMatchDictPair, t: (String, String)) -> (b: bool)
    ensures
        (forall|p: (Seq<char>, Seq<char>)| bi_pairs(old(d)).contains(p) ==> p.0 != t.0@ && p.1 != t.1@)
            ==> bi_pairs(final(d)) == bi_pairs(old(d)).insert((t.0@, t.1@)),
        !(forall|p: (Seq<char>, Seq<char>)| bi_pairs(old(d)).contains(p) ==> p.0 != t.0@ && p.1 != t.1@)
            ==> bi_pairs(final(d)) == bi_pairs(old(d));
pub assume_specification<T>[ <nar_dev_utils::SuffixMatchDictPair<T> as Default>::default ]() -> (r: nar_dev_utils::SuffixMatchDictPair<T>)
    ensures suf_map(&r) == Map::<Seq<char>, T>::empty();
pub assume_specification<T>[ nar_dev_utils::SuffixMatchDictPair::<T>::insert ](d: &mut nar_dev_utils::SuffixMatchDictPair<T>, t: (T, String)) -> (b: Option<usize>)
    ensures
        !suf_map(old(d)).dom().contains(t.1@) ==> suf_map(final(d)) == suf_map(old(d)).insert(t.1@, t.0),
        suf_map(old(d)).dom().contains(t.1@) ==> suf_map(final(d)) == suf_map(old(d));
/// A2: `String::from(&str)` (reached through `"lit".into()`) copies the characters
pub assume_specification<'a, 'b>[ <String as From<&'a str>>::from ](s: &'b str) -> (r: String)
    ensures r@ == s@;

/// the lexical stamp dictionary maps the closing text `suffix` to the opening text `prefix`
pub open spec fn stamp_entry(l: &NarseseFormat, suffix: Seq<char>, prefix: Seq<char>) -> bool {
    suf_map(&l.sentence.stamp_brackets).dom().contains(suffix) && suf_map(&l.sentence.stamp_brackets)[suffix]@ == prefix
}
/// C03 / C11: the lexical format and the enum format of the same name have the SAME vocabulary:
/// every keyword set of the lexical dictionaries is exactly the set of the corresponding enum
/// fields, brackets and separators are equal, and a stamp is spelled
/// `left bracket + tense keyword + right bracket` (fixed: `left + fixed keyword`, number, `right`).
pub open spec fn same_vocabulary(l: &NarseseFormat, e: &crate::format::NarseseFormat<&'static str>) -> bool {
    same_plain(l, e) && same_prefixes(l, e) && same_connecters(l, e) && same_copulas(l, e) && same_punctuations(l, e)
        && same_set_brackets(l, e) && same_stamps(l, e)
}
/// spaces, brackets and separators that are plain strings on both sides
pub open spec fn same_plain(l: &NarseseFormat, e: &crate::format::NarseseFormat<&'static str>) -> bool {
    &&& l.space.format_terms@ == e.space.format_terms@
    &&& l.space.format_items@ == e.space.format_items@
    &&& l.compound.brackets.0@ == e.compound.brackets.0@ && l.compound.brackets.1@ == e.compound.brackets.1@
    &&& l.compound.separator@ == e.compound.separator@
    &&& l.statement.brackets.0@ == e.statement.brackets.0@ && l.statement.brackets.1@ == e.statement.brackets.1@
    &&& l.sentence.truth_brackets.0@ == e.sentence.truth_brackets.0@ && l.sentence.truth_brackets.1@ == e.sentence.truth_brackets.1@
    &&& l.sentence.truth_separator@ == e.sentence.truth_separator@
    &&& l.task.budget_brackets.0@ == e.task.budget_brackets.0@ && l.task.budget_brackets.1@ == e.task.budget_brackets.1@
    &&& l.task.budget_separator@ == e.task.budget_separator@
}
pub open spec fn same_prefixes(l: &NarseseFormat, e: &crate::format::NarseseFormat<&'static str>) -> bool {
    dict_keys(&l.atom.prefixes) =~= prefix_seq(e).to_set()
}
pub open spec fn same_connecters(l: &NarseseFormat, e: &crate::format::NarseseFormat<&'static str>) -> bool {
    dict_keys(&l.compound.connecters) =~= connecter_seq(e).to_set()
}
pub open spec fn same_copulas(l: &NarseseFormat, e: &crate::format::NarseseFormat<&'static str>) -> bool {
    dict_keys(&l.statement.copulas) =~= copula_seq(e).to_set()
}
pub open spec fn same_punctuations(l: &NarseseFormat, e: &crate::format::NarseseFormat<&'static str>) -> bool {
    dict_keys(&l.sentence.punctuations) =~= set![
        e.sentence.punctuation_judgement@, e.sentence.punctuation_goal@,
        e.sentence.punctuation_question@, e.sentence.punctuation_quest@]
}
pub open spec fn same_set_brackets(l: &NarseseFormat, e: &crate::format::NarseseFormat<&'static str>) -> bool {
    bi_pairs(&l.compound.set_brackets) =~= set![
        (e.compound.brackets_set_extension.0@, e.compound.brackets_set_extension.1@),
        (e.compound.brackets_set_intension.0@, e.compound.brackets_set_intension.1@)]
}
pub open spec fn same_stamps(l: &NarseseFormat, e: &crate::format::NarseseFormat<&'static str>) -> bool {
    &&& stamp_entry(l, e.sentence.stamp_brackets.0@ + e.sentence.stamp_past@ + e.sentence.stamp_brackets.1@, Seq::<char>::empty())
    &&& stamp_entry(l, e.sentence.stamp_brackets.0@ + e.sentence.stamp_present@ + e.sentence.stamp_brackets.1@, Seq::<char>::empty())
    &&& stamp_entry(l, e.sentence.stamp_brackets.0@ + e.sentence.stamp_future@ + e.sentence.stamp_brackets.1@, Seq::<char>::empty())
    &&& stamp_entry(l, e.sentence.stamp_brackets.1@, e.sentence.stamp_brackets.0@ + e.sentence.stamp_fixed@)
    &&& suf_map(&l.sentence.stamp_brackets).dom() =~= set![
            e.sentence.stamp_brackets.0@ + e.sentence.stamp_past@ + e.sentence.stamp_brackets.1@,
            e.sentence.stamp_brackets.0@ + e.sentence.stamp_present@ + e.sentence.stamp_brackets.1@,
            e.sentence.stamp_brackets.0@ + e.sentence.stamp_future@ + e.sentence.stamp_brackets.1@,
            e.sentence.stamp_brackets.1@]
}

// ---- literal arithmetic the solver does not do unprompted (Verus keeps string literals opaque
// until `reveal_strlit`): distinctness of the few keys whose insertion is conditional, and the
// spelling of the stamp markers as bracket + keyword + bracket ----
pub proof fn lemma_ascii_literals()
    ensures
        "{"@ != "["@, "}"@ != "]"@,
        ":"@ + "\\"@ + ":"@ == ":\\:"@, ":"@ + "|"@ + ":"@ == ":|:"@, ":"@ + "/"@ + ":"@ == ":/:"@,
        ":"@ + "!"@ == ":!"@, ""@ == Seq::<char>::empty(),
        ":\\:"@ != ":|:"@, ":\\:"@ != ":/:"@, ":\\:"@ != ":"@, ":|:"@ != ":/:"@, ":|:"@ != ":"@, ":/:"@ != ":"@,
{
    reveal_strlit("{"); reveal_strlit("["); reveal_strlit("}"); reveal_strlit("]");
    reveal_strlit(":"); reveal_strlit("\\"); reveal_strlit("|"); reveal_strlit("/"); reveal_strlit("!"); reveal_strlit("");
    reveal_strlit(":\\:"); reveal_strlit(":|:"); reveal_strlit(":/:"); reveal_strlit(":!");
    assert(":"@ + "\\"@ + ":"@ =~= ":\\:"@);
    assert(":"@ + "|"@ + ":"@ =~= ":|:"@);
    assert(":"@ + "/"@ + ":"@ =~= ":/:"@);
    assert(":"@ + "!"@ =~= ":!"@);
    assert(""@ =~= Seq::<char>::empty());
    assert(":\\:"@[1] != ":|:"@[1]); assert(":\\:"@[1] != ":/:"@[1]); assert(":|:"@[1] != ":/:"@[1]);
    assert(":\\:"@.len() != ":"@.len()); assert(":|:"@.len() != ":"@.len()); assert(":/:"@.len() != ":"@.len());
    assert("{"@[0] != "["@[0]); assert("}"@[0] != "]"@[0]);
}

pub proof fn lemma_latex_literals()
    ensures
        r"\left\{"@ != r"\left["@, r"\right\}"@ != r"\right]"@,
        ""@ == Seq::<char>::empty(),
        r"\backslash\!\!\!\!\!\Rightarrow{}"@ != r"|\!\!\!\!\!\Rightarrow{}"@,
        r"\backslash\!\!\!\!\!\Rightarrow{}"@ != r"/\!\!\!\!\!\Rightarrow{}"@,
        r"|\!\!\!\!\!\Rightarrow{}"@ != r"/\!\!\!\!\!\Rightarrow{}"@,
        r"\backslash\!\!\!\!\!\Rightarrow{}"@ != ""@, r"|\!\!\!\!\!\Rightarrow{}"@ != ""@, r"/\!\!\!\!\!\Rightarrow{}"@ != ""@,
{
    reveal_strlit(r"\left\{"); reveal_strlit(r"\left["); reveal_strlit(r"\right\}"); reveal_strlit(r"\right]");
    reveal_strlit(""); reveal_strlit(r"\backslash\!\!\!\!\!\Rightarrow{}"); reveal_strlit(r"|\!\!\!\!\!\Rightarrow{}"); reveal_strlit(r"/\!\!\!\!\!\Rightarrow{}");
    assert(""@ =~= Seq::<char>::empty());
    assert(r"\left\{"@[5] != r"\left["@[5]); assert(r"\right\}"@[6] != r"\right]"@[6]);
    assert(r"\backslash\!\!\!\!\!\Rightarrow{}"@[0] != r"|\!\!\!\!\!\Rightarrow{}"@[0]);
    assert(r"\backslash\!\!\!\!\!\Rightarrow{}"@[0] != r"/\!\!\!\!\!\Rightarrow{}"@[0]);
    assert(r"|\!\!\!\!\!\Rightarrow{}"@[0] != r"/\!\!\!\!\!\Rightarrow{}"@[0]);
    assert(r"\backslash\!\!\!\!\!\Rightarrow{}"@.len() != ""@.len()); assert(r"|\!\!\!\!\!\Rightarrow{}"@.len() != ""@.len()); assert(r"/\!\!\!\!\!\Rightarrow{}"@.len() != ""@.len());
}
pub proof fn lemma_han_literals()
    ensures
        "『"@ != "【"@, "』"@ != "】"@,
        ""@ == Seq::<char>::empty(),
        "过去"@ != "现在"@, "过去"@ != "将来"@, "现在"@ != "将来"@,
        "过去"@ != ""@, "现在"@ != ""@, "将来"@ != ""@,
{
    reveal_strlit("『"); reveal_strlit("【"); reveal_strlit("』"); reveal_strlit("】");
    reveal_strlit(""); reveal_strlit("过去"); reveal_strlit("现在"); reveal_strlit("将来");
    assert(""@ =~= Seq::<char>::empty());
    assert("『"@[0] != "【"@[0]); assert("』"@[0] != "】"@[0]);
    assert("过去"@[0] != "现在"@[0]); assert("过去"@[0] != "将来"@[0]); assert("现在"@[0] != "将来"@[0]);
    assert("过去"@.len() != ""@.len()); assert("现在"@.len() != ""@.len()); assert("将来"@.len() != ""@.len());
}
/// `"" + x + ""` is `x` (the LaTeX and Han formats have empty stamp brackets)
pub proof fn lemma_empty_wrap(x: Seq<char>)
    ensures Seq::<char>::empty() + x + Seq::<char>::empty() == x, Seq::<char>::empty() + x == x
{
    assert(Seq::<char>::empty() + x + Seq::<char>::empty() =~= x);
    assert(Seq::<char>::empty() + x =~= x);
}
