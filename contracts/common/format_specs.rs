// ---- vocabulary side conditions of an enum format (checked on the shipped constants elsewhere) ----
pub open spec fn copula_seq(f: &NarseseFormat<&str>) -> Seq<Seq<char>> {
    seq![
        f.statement.copula_inheritance@, f.statement.copula_similarity@,
        f.statement.copula_implication@, f.statement.copula_equivalence@,
        f.statement.copula_instance@, f.statement.copula_property@,
        f.statement.copula_instance_property@, f.statement.copula_implication_predictive@,
        f.statement.copula_implication_concurrent@, f.statement.copula_implication_retrospective@,
        f.statement.copula_equivalence_predictive@, f.statement.copula_equivalence_concurrent@,
        f.statement.copula_equivalence_retrospective@,
    ]
}
pub open spec fn connecter_seq(f: &NarseseFormat<&str>) -> Seq<Seq<char>> {
    seq![
        f.compound.connecter_intersection_extension@, f.compound.connecter_intersection_intension@,
        f.compound.connecter_difference_extension@, f.compound.connecter_difference_intension@,
        f.compound.connecter_product@, f.compound.connecter_image_extension@,
        f.compound.connecter_image_intension@, f.compound.connecter_conjunction@,
        f.compound.connecter_disjunction@, f.compound.connecter_negation@,
        f.compound.connecter_conjunction_sequential@, f.compound.connecter_conjunction_parallel@,
    ]
}
pub open spec fn prefix_seq(f: &NarseseFormat<&str>) -> Seq<Seq<char>> {
    seq![
        f.atom.prefix_word@, f.atom.prefix_placeholder@, f.atom.prefix_variable_independent@,
        f.atom.prefix_variable_dependent@, f.atom.prefix_variable_query@, f.atom.prefix_interval@,
        f.atom.prefix_operator@,
    ]
}
pub open spec fn pairwise_distinct(s: Seq<Seq<char>>) -> bool {
    forall|i: int, j: int| 0 <= i < j < s.len() ==> s[i] != s[j]
}
/// the 13 copulas / 12 connecters / 7 atom prefixes / 2 set bracket pairs of a format are
/// pairwise different keywords
pub open spec fn vocabulary_distinct(f: &NarseseFormat<&str>) -> bool {
    &&& pairwise_distinct(copula_seq(f))
    &&& pairwise_distinct(connecter_seq(f))
    &&& pairwise_distinct(prefix_seq(f))
    &&& (f.compound.brackets_set_extension.0@ != f.compound.brackets_set_intension.0@
        || f.compound.brackets_set_extension.1@ != f.compound.brackets_set_intension.1@)
}
