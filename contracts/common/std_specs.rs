// ---- A2: assumed contracts on std items shared by several units (each is listed in evidence) ----
#[verifier::external_type_specification]
#[verifier::external_body]
pub struct ExParseIntError(std::num::ParseIntError);
#[verifier::external_type_specification]
#[verifier::external_body]
pub struct ExParseFloatError(std::num::ParseFloatError);
#[verifier::external_trait_specification]
pub trait ExFromStr: Sized {
    type ExternalTraitSpecificationFor: std::str::FromStr;
    type Err;
    fn from_str(s: &str) -> Result<Self, Self::Err>;
}

pub assume_specification[ <String as PartialEq<str>>::eq ](a: &String, b: &str) -> (r: bool)
    ensures r == (a@ == b@);

/// A2: `str::parse` never panics; its value is an uninterpreted function of the text
pub uninterp spec fn parse_spec<F>(s: Seq<char>) -> Option<F>;
pub assume_specification<F: std::str::FromStr>[ str::parse::<F> ](s: &str) -> (r: Result<F, F::Err>)
    ensures
        r matches Ok(v) ==> parse_spec::<F>(s@) == Some(v),
        r is Err ==> parse_spec::<F>(s@) is None;


/// A2: char::is_ascii_digit is total
pub assume_specification[ char::is_ascii_digit ](c: &char) -> (r: bool)
    ensures r == ('0' <= *c && *c <= '9');

/// A2: `Option::unwrap_unchecked` – undefined behaviour unless Some, hence the precondition
pub assume_specification<T>[ Option::<T>::unwrap_unchecked ](o: Option<T>) -> (r: T)
    requires o is Some
    ensures Some(r) == o;

/// A2: `slice::Iter::position` returns the first index whose element satisfies the predicate.
/// Stated over any sequence `s` of the referenced values (tagged with `vx_tag` so that the
/// quantifier can be instantiated by a one-line hint naming the vector).
pub open spec fn vx_tag<T>(s: Seq<T>) -> bool { true }
pub assume_specification<'a, T, P: FnMut(&'a T) -> bool>[ <core::slice::Iter<'a, T> as Iterator>::position::<P> ](it: &mut core::slice::Iter<'a, T>, predicate: P) -> (r: Option<usize>)
    where core::slice::Iter<'a, T>: Sized
    requires forall|x: &'a T| call_requires(predicate, (x,))
    ensures
        forall|s: Seq<T>| #[trigger] vx_tag(s) && s.len() == old(it).remaining().len()
            && (forall|k: int| 0 <= k < s.len() ==> *(#[trigger] old(it).remaining()[k]) == s[k]) ==> match r {
            Some(i) => i < s.len()
                && call_ensures(predicate, (&s[i as int],), true)
                && forall|j: int| 0 <= j < i ==> call_ensures(predicate, (&#[trigger] s[j],), false),
            None => forall|j: int| 0 <= j < s.len() ==> call_ensures(predicate, (&#[trigger] s[j],), false),
        };


/// A2: `str::trim` returns some substring (which one is irrelevant: no property lets an entry
/// point alter its input)
pub uninterp spec fn vx_trim(s: Seq<char>) -> Seq<char>;
/// `char::is_whitespace` (vstd: std_specs::char::is_white_space)
pub open spec fn char_is_ws(c: char) -> bool { vstd::std_specs::char::is_white_space(c) }
pub assume_specification[ str::trim ](s: &str) -> (r: &str)
    ensures r@ == vx_trim(s@),
        // std: "returns a string slice with leading and trailing whitespace removed",
        // whitespace being the same Unicode White_Space property `char::is_whitespace` tests
        r@.len() > 0 ==> !char_is_ws(r@[0]) && !char_is_ws(r@.last());
/// A2: `str::trim_end` / `trim_start` likewise return some substring without trailing / leading
/// White_Space (they are not used on the pinned tree; specified so that a change which starts
/// to trim an input stays decidable)
pub uninterp spec fn vx_trim_end(s: Seq<char>) -> Seq<char>;
pub uninterp spec fn vx_trim_start(s: Seq<char>) -> Seq<char>;
pub assume_specification[ str::trim_end ](s: &str) -> (r: &str)
    ensures r@ == vx_trim_end(s@), r@.len() <= s@.len(), r@.len() > 0 ==> !char_is_ws(r@.last());
pub assume_specification[ str::trim_start ](s: &str) -> (r: &str)
    ensures r@ == vx_trim_start(s@), r@.len() <= s@.len(), r@.len() > 0 ==> !char_is_ws(r@[0]);


/// A2: `str::chars().count()` is the number of chars; a str is at most isize::MAX bytes long
pub assume_specification<'a>[ <core::str::Chars<'a> as Iterator>::count ](it: core::str::Chars<'a>) -> (r: usize)
    ensures r == it.remaining().len(), r <= isize::MAX as usize;


/// A2: the blanket `impl<T: Clone> ToOwned for T` (used as `&String -> String`) does not panic
pub assume_specification<T: Clone>[ <T as std::borrow::ToOwned>::to_owned ](t: &T) -> (r: T)
    ensures r == *t;


/// A2: `String::len` is the UTF-8 *byte* length: between one and four bytes per character (the
/// view of a String is its sequence of chars)
pub assume_specification[ String::len ](s: &String) -> (r: usize)
    ensures
        s@.len() <= r,
        r <= 4 * s@.len(),
        s.is_ascii() ==> r == s@.len();

/// A2: `f64::round` / `trunc` / `floor` / `ceil` / `abs` are total functions of their argument (none
/// is used on the pinned tree; stated so that a change that starts to massage numbers before
/// printing or storing them stays decidable)
pub uninterp spec fn f64_round(x: f64) -> f64;
pub uninterp spec fn f64_trunc(x: f64) -> f64;
pub uninterp spec fn f64_floor(x: f64) -> f64;
pub uninterp spec fn f64_ceil(x: f64) -> f64;
pub uninterp spec fn f64_abs(x: f64) -> f64;
pub assume_specification[ f64::round ](x: f64) -> (r: f64) ensures r == f64_round(x);
pub assume_specification[ f64::trunc ](x: f64) -> (r: f64) ensures r == f64_trunc(x);
pub assume_specification[ f64::floor ](x: f64) -> (r: f64) ensures r == f64_floor(x);
pub assume_specification[ f64::ceil ](x: f64) -> (r: f64) ensures r == f64_ceil(x);
pub assume_specification[ f64::abs ](x: f64) -> (r: f64) ensures r == f64_abs(x);

/// A2: `String::with_capacity` returns an empty string (the capacity is not observable)
pub assume_specification[ String::with_capacity ](n: usize) -> (r: String)
    ensures r@ == Seq::<char>::empty();
