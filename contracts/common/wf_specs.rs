// ---- hand written: C12 well-formedness at every depth, and the induction step ----
/// C12, one level: non-empty atom names, no empty compound or set, image index within bounds
/// (arity of negation and the differences is enforced by the type: one box / two boxes)
pub open spec fn root_wf(t: Term) -> bool {
    match t {
        Term::Word(n) | Term::VariableIndependent(n) | Term::VariableDependent(n)
        | Term::VariableQuery(n) | Term::Operator(n) => n@.len() > 0,
        Term::SetExtension(s) | Term::SetIntension(s) | Term::IntersectionExtension(s)
        | Term::IntersectionIntension(s) | Term::Conjunction(s) | Term::Disjunction(s)
        | Term::ConjunctionParallel(s) => s@.len() > 0,
        Term::Product(v) | Term::ConjunctionSequential(v) => v@.len() > 0,
        Term::ImageExtension(i, v) | Term::ImageIntension(i, v) => i <= v.len(),
        _ => true,
    }
}
/// C12 down to nesting depth d: the root is well-formed and, for d > 0, every component is
/// well-formed down to depth d - 1.  (Recursion on the depth, not on the term: the members of a
/// HashSet<Term> carry no structural-size information in Verus.)
pub open spec fn deep_wf(t: Term, d: nat) -> bool
    decreases d
{
    root_wf(t) && (d == 0 || match t {
        Term::Negation(a) => deep_wf(*a, (d - 1) as nat),
        Term::DifferenceExtension(a, b) | Term::DifferenceIntension(a, b) | Term::Inheritance(a, b)
        | Term::Similarity(a, b) | Term::Implication(a, b) | Term::Equivalence(a, b)
        | Term::ImplicationPredictive(a, b) | Term::ImplicationConcurrent(a, b)
        | Term::ImplicationRetrospective(a, b) | Term::EquivalencePredictive(a, b)
        | Term::EquivalenceConcurrent(a, b) => deep_wf(*a, (d - 1) as nat) && deep_wf(*b, (d - 1) as nat),
        Term::Product(v) | Term::ConjunctionSequential(v) | Term::ImageExtension(_, v) | Term::ImageIntension(_, v) =>
            forall|i: int| 0 <= i < v@.len() ==> deep_wf(#[trigger] v@[i], (d - 1) as nat),
        Term::SetExtension(s) | Term::SetIntension(s) | Term::IntersectionExtension(s)
        | Term::IntersectionIntension(s) | Term::Conjunction(s) | Term::Disjunction(s)
        | Term::ConjunctionParallel(s) =>
            forall|x: Term| #[trigger] s@.contains(x) ==> deep_wf(x, (d - 1) as nat),
        _ => true,
    })
}
/// C12: what a term returned by the enum parser looks like - well-formed at EVERY depth
pub open spec fn parsed_wf(t: Term) -> bool {
    forall|d: nat| #[trigger] deep_wf(t, d)
}

/// every element of `src` is well-formed at every depth
pub open spec fn all_parsed_wf(src: Seq<Term>) -> bool {
    forall|k: int| 0 <= k < src.len() ==> parsed_wf(#[trigger] src[k])
}
/// the components of `t` (ordered ones / set members) all occur in `src`, or are the placeholder
pub open spec fn components_from(t: Term, src: Seq<Term>) -> bool {
    &&& !is_set_like(t) ==> forall|i: int| 0 <= i < ordered_components(t).len() ==>
            (#[trigger] ordered_components(t)[i] == Term::Placeholder || src.contains(ordered_components(t)[i]))
    &&& is_set_like(t) ==> forall|x: Term| #[trigger] set_of(t).contains(x) ==> (x == Term::Placeholder || src.contains(x))
}
/// C12 induction step: a term whose root is well-formed and whose components come from
/// well-formed terms is well-formed at every depth
pub proof fn lemma_wf_from_components(t: Term, src: Seq<Term>)
    requires root_wf(t), all_parsed_wf(src), components_from(t, src),
    ensures parsed_wf(t)
{
    assert forall|d: nat| #[trigger] deep_wf(t, d) by {
        if d > 0 {
            let e = (d - 1) as nat;
            // what components_from gives for one component
            assert forall|c: Term| (c == Term::Placeholder || src.contains(c)) implies deep_wf(c, e) by {
                if c != Term::Placeholder {
                    let k = choose|k: int| 0 <= k < src.len() && src[k] == c;
                    assert(parsed_wf(src[k]));
                }
            }
            match t {
                Term::Negation(a) => {
                    assert(ordered_components(t)[0] == *a);
                    assert(deep_wf(*a, e));
                }
                Term::DifferenceExtension(a, b) | Term::DifferenceIntension(a, b) | Term::Inheritance(a, b)
                | Term::Similarity(a, b) | Term::Implication(a, b) | Term::Equivalence(a, b)
                | Term::ImplicationPredictive(a, b) | Term::ImplicationConcurrent(a, b)
                | Term::ImplicationRetrospective(a, b) | Term::EquivalencePredictive(a, b)
                | Term::EquivalenceConcurrent(a, b) => {
                    assert(ordered_components(t)[0] == *a);
                    assert(ordered_components(t)[1] == *b);
                    assert(deep_wf(*a, e) && deep_wf(*b, e));
                }
                Term::Product(v) | Term::ConjunctionSequential(v) | Term::ImageExtension(_, v) | Term::ImageIntension(_, v) => {
                    assert forall|i: int| 0 <= i < v@.len() implies deep_wf(#[trigger] v@[i], e) by {
                        assert(ordered_components(t)[i] == v@[i]);
                    }
                }
                Term::SetExtension(s) | Term::SetIntension(s) | Term::IntersectionExtension(s)
                | Term::IntersectionIntension(s) | Term::Conjunction(s) | Term::Disjunction(s)
                | Term::ConjunctionParallel(s) => {
                    assert forall|x: Term| #[trigger] s@.contains(x) implies deep_wf(x, e) by {
                        assert(set_of(t).contains(x));
                    }
                }
                _ => {}
            }
        }
    }
}
/// wrapping one well-formed term into a singleton set (instance / property statements)
pub proof fn lemma_wf_singleton_set(t: Term, x: Term)
    requires parsed_wf(x), is_set_like(t), set_of(t) == set![x],
    ensures parsed_wf(t)
{
    assert(set![x].contains(x));
    assert(set_of(t).len() > 0) by { if set_of(t).len() == 0 { set_of(t).lemma_len0_is_empty(); } }
    assert(seq![x][0] == x);
    lemma_wf_from_components(t, seq![x]);
}


// ---- the same induction for what the FOLD pipeline guarantees (C12: "ranges and image index") ----
/// one level: an image's placeholder index is at most the number of its components
pub open spec fn root_img(t: Term) -> bool {
    match t {
        Term::ImageExtension(i, v) | Term::ImageIntension(i, v) => i <= v.len(),
        _ => true,
    }
}
/// (fold pipeline) C12 down to nesting depth d: the root has its image index in bounds and, for d > 0, every component is
/// well-formed down to depth d - 1.  (Recursion on the depth, not on the term: the members of a
/// HashSet<Term> carry no structural-size information in Verus.)
pub open spec fn deep_img(t: Term, d: nat) -> bool
    decreases d
{
    root_img(t) && (d == 0 || match t {
        Term::Negation(a) => deep_img(*a, (d - 1) as nat),
        Term::DifferenceExtension(a, b) | Term::DifferenceIntension(a, b) | Term::Inheritance(a, b)
        | Term::Similarity(a, b) | Term::Implication(a, b) | Term::Equivalence(a, b)
        | Term::ImplicationPredictive(a, b) | Term::ImplicationConcurrent(a, b)
        | Term::ImplicationRetrospective(a, b) | Term::EquivalencePredictive(a, b)
        | Term::EquivalenceConcurrent(a, b) => deep_img(*a, (d - 1) as nat) && deep_img(*b, (d - 1) as nat),
        Term::Product(v) | Term::ConjunctionSequential(v) | Term::ImageExtension(_, v) | Term::ImageIntension(_, v) =>
            forall|i: int| 0 <= i < v@.len() ==> deep_img(#[trigger] v@[i], (d - 1) as nat),
        Term::SetExtension(s) | Term::SetIntension(s) | Term::IntersectionExtension(s)
        | Term::IntersectionIntension(s) | Term::Conjunction(s) | Term::Disjunction(s)
        | Term::ConjunctionParallel(s) =>
            forall|x: Term| #[trigger] s@.contains(x) ==> deep_img(x, (d - 1) as nat),
        _ => true,
    })
}
/// C12: what folding returns - every image at EVERY depth has its placeholder index within bounds
pub open spec fn folded_wf(t: Term) -> bool {
    forall|d: nat| #[trigger] deep_img(t, d)
}

/// every element of `src` is well-formed at every depth
pub open spec fn all_folded_wf(src: Seq<Term>) -> bool {
    forall|k: int| 0 <= k < src.len() ==> folded_wf(#[trigger] src[k])
}
/// C12 induction step: a term whose root is well-formed and whose components come from
/// well-formed terms is well-formed at every depth
pub proof fn lemma_img_from_components(t: Term, src: Seq<Term>)
    requires root_img(t), all_folded_wf(src), components_from(t, src),
    ensures folded_wf(t)
{
    assert forall|d: nat| #[trigger] deep_img(t, d) by {
        if d > 0 {
            let e = (d - 1) as nat;
            // what components_from gives for one component
            assert forall|c: Term| (c == Term::Placeholder || src.contains(c)) implies deep_img(c, e) by {
                if c != Term::Placeholder {
                    let k = choose|k: int| 0 <= k < src.len() && src[k] == c;
                    assert(folded_wf(src[k]));
                }
            }
            match t {
                Term::Negation(a) => {
                    assert(ordered_components(t)[0] == *a);
                    assert(deep_img(*a, e));
                }
                Term::DifferenceExtension(a, b) | Term::DifferenceIntension(a, b) | Term::Inheritance(a, b)
                | Term::Similarity(a, b) | Term::Implication(a, b) | Term::Equivalence(a, b)
                | Term::ImplicationPredictive(a, b) | Term::ImplicationConcurrent(a, b)
                | Term::ImplicationRetrospective(a, b) | Term::EquivalencePredictive(a, b)
                | Term::EquivalenceConcurrent(a, b) => {
                    assert(ordered_components(t)[0] == *a);
                    assert(ordered_components(t)[1] == *b);
                    assert(deep_img(*a, e) && deep_img(*b, e));
                }
                Term::Product(v) | Term::ConjunctionSequential(v) | Term::ImageExtension(_, v) | Term::ImageIntension(_, v) => {
                    assert forall|i: int| 0 <= i < v@.len() implies deep_img(#[trigger] v@[i], e) by {
                        assert(ordered_components(t)[i] == v@[i]);
                    }
                }
                Term::SetExtension(s) | Term::SetIntension(s) | Term::IntersectionExtension(s)
                | Term::IntersectionIntension(s) | Term::Conjunction(s) | Term::Disjunction(s)
                | Term::ConjunctionParallel(s) => {
                    assert forall|x: Term| #[trigger] s@.contains(x) implies deep_img(x, e) by {
                        assert(set_of(t).contains(x));
                    }
                }
                _ => {}
            }
        }
    }
}
