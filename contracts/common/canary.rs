// ---- vacuity guard: this obligation MUST fail on every run; the driver requires it to ----
proof fn vx_canary() {
    assert(false); // must fail
}
