// ---- hand written (shared by the enum and the Typst formatter units) ----
// ---- termination measure (A8): an owned Rust value is a finite tree, so a term has a finite
// nesting depth and every component is strictly shallower.  Verus sees that for Box / Vec
// fields but not for the members of a HashSet, hence the axiomatised depth. ----
pub uninterp spec fn term_depth(t: Term) -> nat;
#[verifier::external_body]
pub proof fn axiom_component_shallower(t: Term, c: Term)
    requires (!is_set_like(t) && ordered_components(t).contains(c)) || (is_set_like(t) && set_of(t).contains(c))
    ensures term_depth(c) < term_depth(t)
{}
/// atoms are leaves; everything else has depth >= 1
#[verifier::external_body]
pub proof fn axiom_depth_of_kind(t: Term)
    ensures category_of(t) == TermCategory::Atom ==> term_depth(t) == 0, category_of(t) != TermCategory::Atom ==> term_depth(t) >= 1
{}
/// 1 + the largest depth among the listed terms (0 for none)
pub open spec fn seq_bound(comps: Seq<Term>) -> nat
    decreases comps.len()
{
    if comps.len() == 0 { 0 } else {
        let a = seq_bound(comps.drop_last()); let b = term_depth(comps.last()) + 1;
        if a >= b { a } else { b }
    }
}
pub proof fn lemma_seq_bound_elem(comps: Seq<Term>, i: int)
    requires 0 <= i < comps.len()
    ensures term_depth(comps[i]) + 1 <= seq_bound(comps)
    decreases comps.len()
{
    if i < comps.len() - 1 { lemma_seq_bound_elem(comps.drop_last(), i); }
}
pub proof fn lemma_seq_bound_le(comps: Seq<Term>, d: nat)
    requires forall|i: int| 0 <= i < comps.len() ==> term_depth(#[trigger] comps[i]) < d
    ensures seq_bound(comps) <= d
    decreases comps.len()
{
    if comps.len() > 0 {
        assert forall|i: int| 0 <= i < comps.drop_last().len() implies term_depth(#[trigger] comps.drop_last()[i]) < d by {
            assert(comps.drop_last()[i] == comps[i]);
        }
        lemma_seq_bound_le(comps.drop_last(), d);
        assert(comps.last() == comps[comps.len() - 1]);
    }
}
/// an image's placeholder index is at most the number of its components (true for non-images)
pub open spec fn image_index_ok(t: Term) -> bool {
    match t { Term::ImageExtension(i, v) | Term::ImageIntension(i, v) => i <= v.len(), _ => true }
}
/// every way _format_term lists the components of t stays below t's depth
pub proof fn lemma_components_bound(t: Term)
    ensures
        forall|c: Seq<Term>| (!is_set_like(t) && c == ordered_components(t)) ==> #[trigger] seq_bound(c) <= term_depth(t),
        forall|c: Seq<Term>| (is_set_like(t) && c.to_set() == set_of(t)) ==> #[trigger] seq_bound(c) <= term_depth(t),
        // an image's components with the (leaf) placeholder put back
        forall|c: Seq<Term>| (!is_set_like(t) && image_index_ok(t) && c == ordered_components_with_placeholder(t)) ==> #[trigger] seq_bound(c) <= term_depth(t),
{
    assert forall|c: Seq<Term>| (!is_set_like(t) && image_index_ok(t) && c == ordered_components_with_placeholder(t)) implies #[trigger] seq_bound(c) <= term_depth(t) by {
        axiom_depth_of_kind(t); axiom_depth_of_kind(Term::Placeholder);
        match t {
            Term::ImageExtension(i, v) | Term::ImageIntension(i, v) => {
                assert forall|k: int| 0 <= k < c.len() implies term_depth(#[trigger] c[k]) < term_depth(t) by {
                    if k < i { assert(c[k] == v@[k]); assert(ordered_components(t).contains(v@[k])); axiom_component_shallower(t, c[k]); }
                    else if k == i { }
                    else { assert(c[k] == v@[k - 1]); assert(ordered_components(t).contains(v@[k - 1])); axiom_component_shallower(t, c[k]); }
                }
                lemma_seq_bound_le(c, term_depth(t));
            }
            _ => {
                assert forall|k: int| 0 <= k < c.len() implies term_depth(#[trigger] c[k]) < term_depth(t) by {
                    assert(ordered_components(t).contains(c[k]));
                    axiom_component_shallower(t, c[k]);
                }
                lemma_seq_bound_le(c, term_depth(t));
            }
        }
    }
    assert forall|c: Seq<Term>| (!is_set_like(t) && c == ordered_components(t)) implies #[trigger] seq_bound(c) <= term_depth(t) by {
        assert forall|i: int| 0 <= i < c.len() implies term_depth(#[trigger] c[i]) < term_depth(t) by {
            assert(ordered_components(t).contains(c[i]));
            axiom_component_shallower(t, c[i]);
        }
        lemma_seq_bound_le(c, term_depth(t));
    }
    assert forall|c: Seq<Term>| (is_set_like(t) && c.to_set() == set_of(t)) implies #[trigger] seq_bound(c) <= term_depth(t) by {
        assert forall|i: int| 0 <= i < c.len() implies term_depth(#[trigger] c[i]) < term_depth(t) by {
            assert(c.contains(c[i]));
            assert(c.to_set().contains(c[i]));
            axiom_component_shallower(t, c[i]);
        }
        lemma_seq_bound_le(c, term_depth(t));
    }
}
/// both operands of a statement are strictly shallower than the statement
pub proof fn lemma_operands_shallower(t: Term)
    requires category_of(t) == TermCategory::Statement
    ensures term_depth(ordered_components(t)[0]) < term_depth(t), term_depth(ordered_components(t)[1]) < term_depth(t),
{
    let oc = ordered_components(t);
    assert(oc.len() == 2);
    assert(oc.contains(oc[0]) && oc.contains(oc[1]));
    axiom_component_shallower(t, oc[0]);
    axiom_component_shallower(t, oc[1]);
}
