// ---- hand written (shared by the enum formatter and the enum parser units): C01 ----
// A *layout* is one concrete way of writing an enum term down: the tree of the term with every
// unordered component container listed in ONE order (the order the formatter happened to iterate
// the HashSet in) and an image's placeholder put back at its recorded position.  The formatter's
// contract is "the text is lay_text of SOME layout of the term" (lay_of); the parser's contract is
// "from lay_text of a layout (whose keywords are distinguishable, lay_ok) the parser builds a term
// that has this SAME layout".  Two terms with a common layout have the same constructors, the same
// ordered components, the same unordered component sets (element by element) and the same
// placeholder position at every depth - C01's "semantically identical".

/// order in which parse_atom tries the prefixes (word, the empty prefix, is the fallback)
pub open spec fn atom_try_order(f: &NarseseFormat<&str>) -> Seq<Seq<char>> {
    seq![
        f.atom.prefix_placeholder@, f.atom.prefix_variable_independent@, f.atom.prefix_variable_dependent@,
        f.atom.prefix_variable_query@, f.atom.prefix_interval@, f.atom.prefix_operator@, f.atom.prefix_word@,
    ]
}
pub open spec fn atom_kind(k: int, t: Term) -> bool {
    if k == 0 { t is Placeholder } else if k == 1 { t is VariableIndependent } else if k == 2 { t is VariableDependent }
    else if k == 3 { t is VariableQuery } else if k == 4 { t is Interval } else if k == 5 { t is Operator } else { t is Word }
}
/// order in which parse_compound tries the connecters (after rejecting the operator prefix)
pub open spec fn compound_try_order(f: &NarseseFormat<&str>) -> Seq<Seq<char>> {
    seq![
        f.compound.connecter_conjunction@, f.compound.connecter_disjunction@, f.compound.connecter_negation@,
        f.compound.connecter_conjunction_sequential@, f.compound.connecter_conjunction_parallel@,
        f.compound.connecter_intersection_extension@, f.compound.connecter_intersection_intension@,
        f.compound.connecter_difference_extension@, f.compound.connecter_difference_intension@,
        f.compound.connecter_product@, f.compound.connecter_image_extension@, f.compound.connecter_image_intension@,
    ]
}
pub open spec fn compound_kind(k: int, t: Term) -> bool {
    if k == 0 { t is Conjunction } else if k == 1 { t is Disjunction } else if k == 2 { t is Negation }
    else if k == 3 { t is ConjunctionSequential } else if k == 4 { t is ConjunctionParallel }
    else if k == 5 { t is IntersectionExtension } else if k == 6 { t is IntersectionIntension }
    else if k == 7 { t is DifferenceExtension } else if k == 8 { t is DifferenceIntension }
    else if k == 9 { t is Product } else if k == 10 { t is ImageExtension } else { t is ImageIntension }
}
/// the statement constructor the formatter writes with the k-th copula of copula_seq (the
/// instance / property / instance-property copulas 4-6 and the retrospective equivalence 12 are
/// parser-only sugar: the formatter never writes them)
pub open spec fn stmt_kind(k: int, t: Term) -> bool {
    if k == 0 { t is Inheritance } else if k == 1 { t is Similarity } else if k == 2 { t is Implication }
    else if k == 3 { t is Equivalence } else if k == 7 { t is ImplicationPredictive }
    else if k == 8 { t is ImplicationConcurrent } else if k == 9 { t is ImplicationRetrospective }
    else if k == 10 { t is EquivalencePredictive } else if k == 11 { t is EquivalenceConcurrent } else { false }
}
/// the components of an image as they are printed: the placeholder at its recorded index
/// (ImageIterator's semantics, proved in unit term_core: insertion when index <= length)
pub open spec fn image_components(index: usize, comps: Seq<Term>) -> Seq<Term> {
    if index <= comps.len() { comps.insert(index as int, Term::Placeholder) } else { comps }
}
/// the ordered components of a compound / statement as they are printed
pub open spec fn printed_components(t: Term) -> Seq<Term> {
    match t {
        Term::ImageExtension(i, v) | Term::ImageIntension(i, v) => image_components(i, v@),
        _ => ordered_components(t),
    }
}

pub ghost enum Lay {
    /// k-th prefix of atom_try_order, then the name
    Atom { k: int, name: Seq<char> },
    /// extension / intension set brackets around the items
    Set { ext: bool, items: Seq<Lay> },
    /// compound brackets, k-th connecter of compound_try_order, the items
    Compound { k: int, items: Seq<Lay> },
    /// statement brackets, subject, k-th copula of copula_seq, predicate
    Stmt { k: int, l: Box<Lay>, r: Box<Lay> },
}
/// what separates two components: the separator, then the term-level space
pub open spec fn lay_sep(f: &NarseseFormat<&str>) -> Seq<char> { f.compound.separator@ + f.space.format_terms@ }
pub open spec fn set_open(f: &NarseseFormat<&str>, ext: bool) -> Seq<char> {
    if ext { f.compound.brackets_set_extension.0@ } else { f.compound.brackets_set_intension.0@ }
}
pub open spec fn set_close(f: &NarseseFormat<&str>, ext: bool) -> Seq<char> {
    if ext { f.compound.brackets_set_extension.1@ } else { f.compound.brackets_set_intension.1@ }
}
/// the text of a layout (C11's productions)
pub open spec fn lay_text(f: &NarseseFormat<&str>, l: Lay) -> Seq<char>
    decreases l, 0nat
{
    match l {
        Lay::Atom { k, name } => atom_try_order(f)[k] + name,
        Lay::Set { ext, items } => set_open(f, ext) + lay_join(f, items, items.len()) + set_close(f, ext),
        Lay::Compound { k, items } => f.compound.brackets.0@ + compound_try_order(f)[k] + lay_sep(f)
            + lay_join(f, items, items.len()) + f.compound.brackets.1@,
        Lay::Stmt { k, l, r } => f.statement.brackets.0@ + lay_text(f, *l) + f.space.format_terms@ + copula_seq(f)[k]
            + f.space.format_terms@ + lay_text(f, *r) + f.statement.brackets.1@,
    }
}
/// the texts of the first n items, lay_sep between consecutive ones
pub open spec fn lay_join(f: &NarseseFormat<&str>, items: Seq<Lay>, n: nat) -> Seq<char>
    decreases items, n
{
    if n == 0 || n > items.len() { Seq::empty() }
    else if n == 1 { lay_text(f, items[0]) }
    else { lay_join(f, items, (n - 1) as nat) + lay_sep(f) + lay_text(f, items[n - 1]) }
}
/// the name part of an atom layout belongs to the atom: the stored name verbatim, nothing for the
/// placeholder, and for an interval a text that std's `parse::<usize>` reads as its number (the
/// formatter writes usize::to_string, which std reads back: term_core's axiom_usize_text_parses)
pub open spec fn atom_name_ok(t: Term, name: Seq<char>) -> bool {
    (named_atom_name(t) matches Some(x) ==> name == x@) && (t is Placeholder ==> name.len() == 0)
        && (t matches Term::Interval(i) ==> parse_spec::<usize>(name) == Some(i))
}
/// `l` is a layout of `t`
pub open spec fn lay_of(l: Lay, t: Term) -> bool
    decreases l, 0nat
{
    match l {
        Lay::Atom { k, name } => 0 <= k < 7 && atom_kind(k, t) && atom_name_ok(t, name),
        Lay::Set { ext, items } => (if ext { t is SetExtension } else { t is SetIntension }) && lay_uitems(items, t),
        Lay::Compound { k, items } => 0 <= k < 12 && compound_kind(k, t)
            && (if is_set_like(t) { lay_uitems(items, t) } else { lay_oitems(items, printed_components(t)) }),
        Lay::Stmt { k, l, r } => stmt_kind(k, t) && lay_of(*l, ordered_components(t)[0]) && lay_of(*r, ordered_components(t)[1]),
    }
}
/// the items lay out the terms `c`, position by position
pub open spec fn lay_oitems(items: Seq<Lay>, c: Seq<Term>) -> bool
    decreases items, 1nat
{
    items.len() == c.len() && forall|i: int| 0 <= i < items.len() ==> lay_of(#[trigger] items[i], c[i])
}
/// the items lay out SOME listing of the unordered components of t
pub open spec fn lay_uitems(items: Seq<Lay>, t: Term) -> bool
    decreases items, 2nat
{
    exists|c: Seq<Term>| #[trigger] c.to_set() == set_of(t) && lay_oitems(items, c)
}
/// C01's conclusion: `a` and `b` can be written down identically
pub open spec fn same_layout(a: Term, b: Term) -> bool {
    exists|l: Lay| #[trigger] lay_of(l, a) && lay_of(l, b)
}
