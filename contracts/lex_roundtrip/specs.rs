// ---- C02 (term level): composition of the lexical formatter and the lexical parser ----
// Unit lex_formatter proves   format_term(t)@ == lex_text(f, t)            (the README layout)
// unit lexical_parser proves  strip(input) == ns_k(f, t, []) && rt_term ==> parse_term(input) == Ok(t)
// Here the two are joined: removing the format's space characters from lex_text(f, t) gives
// ns_k(f, t, []) whenever no keyword of the format and no string of the term contains a space
// character and the inter-token space consists of space characters only; the executable
// composition `parse_term(format_term(t))` is then verified to return t, field for field.

pub open spec fn no_space(f: &NarseseFormat, s: Seq<char>) -> bool {
    forall|i: int| 0 <= i < s.len() ==> !f.space.is_for_parse.spec_call(#[trigger] s[i])
}
pub open spec fn all_space(f: &NarseseFormat, s: Seq<char>) -> bool {
    forall|i: int| 0 <= i < s.len() ==> f.space.is_for_parse.spec_call(#[trigger] s[i])
}
/// brackets and separator carry no space character; the inter-token space is made of them
pub open spec fn format_no_space(f: &NarseseFormat) -> bool {
    &&& no_space(f, f.compound.brackets.0@) && no_space(f, f.compound.brackets.1@)
    &&& no_space(f, f.compound.separator@)
    &&& no_space(f, f.statement.brackets.0@) && no_space(f, f.statement.brackets.1@)
    &&& all_space(f, f.space.format_terms@)
}
/// no string stored in the term contains a space character; component lists are non-empty
pub open spec fn term_no_space(f: &NarseseFormat, t: Term) -> bool
    decreases t, 0nat
{
    match t {
        Term::Atom { prefix, name } => no_space(f, prefix@) && no_space(f, name@),
        Term::Compound { connecter, terms } => no_space(f, connecter@) && terms@.len() >= 1 && terms_no_space(f, terms, terms@.len()),
        Term::Set { left_bracket, terms, right_bracket } =>
            no_space(f, left_bracket@) && no_space(f, right_bracket@) && terms@.len() >= 1 && terms_no_space(f, terms, terms@.len()),
        Term::Statement { copula, subject, predicate } => no_space(f, copula@) && term_no_space(f, *subject) && term_no_space(f, *predicate),
    }
}
pub open spec fn terms_no_space(f: &NarseseFormat, v: Vec<Term>, n: nat) -> bool
    decreases v, n
{
    if n == 0 || n > v@.len() { true } else { terms_no_space(f, v, (n - 1) as nat) && term_no_space(f, v@[n - 1]) }
}
pub open spec fn sp(f: &NarseseFormat, s: Seq<char>) -> Seq<char> { strip_spaces(s, &f.space.is_for_parse) }

pub proof fn lemma_strip_concat(f: &NarseseFormat, a: Seq<char>, b: Seq<char>)
    ensures sp(f, a + b) == sp(f, a) + sp(f, b)
    decreases b.len()
{
    if b.len() == 0 {
        assert(a + b =~= a);
        assert(sp(f, a) + sp(f, b) =~= sp(f, a));
    } else {
        lemma_strip_concat(f, a, b.drop_last());
        assert((a + b).drop_last() =~= a + b.drop_last());
        assert((a + b).last() == b.last());
        if f.space.is_for_parse.spec_call(b.last()) {
        } else {
            assert((sp(f, a) + sp(f, b.drop_last())).push(b.last()) =~= sp(f, a) + sp(f, b.drop_last()).push(b.last()));
        }
    }
}
pub proof fn lemma_strip_none(f: &NarseseFormat, s: Seq<char>)
    requires no_space(f, s)
    ensures sp(f, s) == s
    decreases s.len()
{
    if s.len() > 0 {
        lemma_strip_none(f, s.drop_last());
        assert(s.drop_last().push(s.last()) =~= s);
    }
}
pub proof fn lemma_strip_all(f: &NarseseFormat, s: Seq<char>)
    requires all_space(f, s)
    ensures sp(f, s) == Seq::<char>::empty()
    decreases s.len()
{
    if s.len() > 0 { lemma_strip_all(f, s.drop_last()); }
}
/// shapes of the four layouts over plain sequences (no recursion: cheap for the solver)
pub proof fn lemma_shape_atom(f: &NarseseFormat, p: Seq<char>, n: Seq<char>, rest: Seq<char>)
    requires no_space(f, p), no_space(f, n)
    ensures sp(f, p + n) + rest == p + (n + rest)
{
    lemma_strip_concat(f, p, n); lemma_strip_none(f, p); lemma_strip_none(f, n);
    assert((p + n) + rest =~= p + (n + rest));
}
pub proof fn lemma_shape_stmt(f: &NarseseFormat, l: Seq<char>, ts: Seq<char>, s0: Seq<char>, c: Seq<char>, tp: Seq<char>, r: Seq<char>, rest: Seq<char>)
    requires no_space(f, l), no_space(f, r), no_space(f, c), all_space(f, s0)
    ensures sp(f, l + ts + s0 + c + s0 + tp + r) + rest == l + ((sp(f, ts) + (c + (sp(f, tp) + (r + rest)))))
{
    lemma_strip_concat(f, l + ts + s0 + c + s0 + tp, r);
    lemma_strip_concat(f, l + ts + s0 + c + s0, tp);
    lemma_strip_concat(f, l + ts + s0 + c, s0);
    lemma_strip_concat(f, l + ts + s0, c);
    lemma_strip_concat(f, l + ts, s0);
    lemma_strip_concat(f, l, ts);
    lemma_strip_none(f, l); lemma_strip_none(f, r); lemma_strip_none(f, c); lemma_strip_all(f, s0);
    let a = sp(f, ts); let b = sp(f, tp); let e = Seq::<char>::empty();
    assert(sp(f, l + ts + s0 + c + s0 + tp + r) == l + a + e + c + e + b + r);
    assert((l + a + e + c + e + b + r) + rest =~= l + (a + (c + (b + (r + rest)))));
}
pub proof fn lemma_shape_compound(f: &NarseseFormat, l: Seq<char>, c: Seq<char>, sep: Seq<char>, s0: Seq<char>, j: Seq<char>, r: Seq<char>, rest: Seq<char>)
    requires no_space(f, l), no_space(f, r), no_space(f, c), no_space(f, sep), all_space(f, s0)
    ensures sp(f, l + c + sep + s0 + j + r) + rest == l + (c + (sep + (sp(f, j) + (r + rest))))
{
    lemma_strip_concat(f, l + c + sep + s0 + j, r);
    lemma_strip_concat(f, l + c + sep + s0, j);
    lemma_strip_concat(f, l + c + sep, s0);
    lemma_strip_concat(f, l + c, sep);
    lemma_strip_concat(f, l, c);
    lemma_strip_none(f, l); lemma_strip_none(f, r); lemma_strip_none(f, c); lemma_strip_none(f, sep); lemma_strip_all(f, s0);
    let a = sp(f, j); let e = Seq::<char>::empty();
    assert(sp(f, l + c + sep + s0 + j + r) == l + c + sep + e + a + r);
    assert((l + c + sep + e + a + r) + rest =~= l + (c + (sep + (a + (r + rest)))));
}
pub proof fn lemma_shape_set(f: &NarseseFormat, l: Seq<char>, j: Seq<char>, r: Seq<char>, rest: Seq<char>)
    requires no_space(f, l), no_space(f, r)
    ensures sp(f, l + j + r) + rest == l + (sp(f, j) + (r + rest))
{
    lemma_strip_concat(f, l + j, r);
    lemma_strip_concat(f, l, j);
    lemma_strip_none(f, l); lemma_strip_none(f, r);
    assert((l + sp(f, j) + r) + rest =~= l + (sp(f, j) + (r + rest)));
}
/// one more component of a join: strip((jp + (sep + s0)) + tm) + nx == strip(jp) + (sep + (strip(tm) + nx))
pub proof fn lemma_shape_join(f: &NarseseFormat, jp: Seq<char>, sep: Seq<char>, s0: Seq<char>, tm: Seq<char>, nx: Seq<char>)
    requires no_space(f, sep), all_space(f, s0)
    ensures sp(f, jp + (sep + s0) + tm) + nx == sp(f, jp) + (sep + (sp(f, tm) + nx))
{
    lemma_strip_concat(f, jp + (sep + s0), tm);
    lemma_strip_concat(f, jp, sep + s0);
    lemma_strip_concat(f, sep, s0);
    lemma_strip_none(f, sep); lemma_strip_all(f, s0);
    let e = Seq::<char>::empty();
    assert(sp(f, sep + s0) =~= sep);
    assert((sp(f, jp) + sep + sp(f, tm)) + nx =~= sp(f, jp) + (sep + (sp(f, tm) + nx)));
}
/// strip(lex_text(t)) followed by `rest` is the parser-side text ns_k(t, rest)
pub proof fn lemma_layout_stripped(f: &NarseseFormat, t: Term, rest: Seq<char>)
    requires format_no_space(f), term_no_space(f, t)
    ensures sp(f, lex_text(f, t)) + rest == ns_k(f, t, rest)
    decreases t, 1nat
{
    let sepsp = f.compound.separator@ + f.space.format_terms@;
    match t {
        Term::Atom { prefix, name } => {
            lemma_shape_atom(f, prefix@, name@, rest);
        },
        Term::Compound { connecter, terms } => {
            let l = f.compound.brackets.0@; let r = f.compound.brackets.1@;
            let j = lex_join(f, terms, terms@.len(), sepsp);
            lemma_shape_compound(f, l, connecter@, f.compound.separator@, f.space.format_terms@, j, r, rest);
            lemma_join_stripped(f, terms, terms@.len(), false, r, rest);
            assert(items_k(f, terms, terms@.len(), false, r, rest) == r + rest);
        },
        Term::Set { left_bracket, terms, right_bracket } => {
            let l = left_bracket@; let r = right_bracket@;
            let j = lex_join(f, terms, terms@.len(), sepsp);
            lemma_shape_set(f, l, j, r, rest);
            lemma_join_stripped(f, terms, terms@.len(), true, r, rest);
            assert(items_k(f, terms, terms@.len(), true, r, rest) == r + rest);
        },
        Term::Statement { copula, subject, predicate } => {
            let l = f.statement.brackets.0@; let r = f.statement.brackets.1@; let s0 = f.space.format_terms@;
            let ts = lex_text(f, *subject); let tp = lex_text(f, *predicate);
            lemma_shape_stmt(f, l, ts, s0, copula@, tp, r, rest);
            let r2 = r + rest;
            lemma_layout_stripped(f, *predicate, r2);
            let c = copula@ + ns_k(f, *predicate, r2);
            lemma_layout_stripped(f, *subject, c);
        },
    }
}
/// the stripped join of the first m components, followed by the remaining items, is the whole list
pub proof fn lemma_join_stripped(f: &NarseseFormat, v: Vec<Term>, m: nat, plain: bool, right: Seq<char>, rest: Seq<char>)
    requires format_no_space(f), 1 <= m <= v@.len(), terms_no_space(f, v, v@.len())
    ensures
        sp(f, lex_join(f, v, m, f.compound.separator@ + f.space.format_terms@)) + items_k(f, v, m, plain, right, rest)
            == ns_k(f, v@[0], items_k(f, v, 1, plain, right, rest)),
        !plain ==> f.compound.separator@ + ns_k(f, v@[0], items_k(f, v, 1, plain, right, rest)) == items_k(f, v, 0, plain, right, rest),
        plain ==> ns_k(f, v@[0], items_k(f, v, 1, plain, right, rest)) == items_k(f, v, 0, plain, right, rest),
    decreases v, m
{
    let sepsp = f.compound.separator@ + f.space.format_terms@;
    lemma_terms_no_space_at(f, v, v@.len(), (m - 1) as int);
    if m == 1 {
        lemma_layout_stripped(f, v@[0], items_k(f, v, 1, plain, right, rest));
    } else {
        let pm = (m - 1) as nat;
        lemma_join_stripped(f, v, pm, plain, right, rest);
        let jp = lex_join(f, v, pm, sepsp);
        let tm = lex_text(f, v@[m - 1]);
        let nx = items_k(f, v, m, plain, right, rest);
        lemma_shape_join(f, jp, f.compound.separator@, f.space.format_terms@, tm, nx);
        lemma_layout_stripped(f, v@[m - 1], nx);
        assert(lex_join(f, v, m, sepsp) == jp + sepsp + tm);
        assert(items_k(f, v, pm, plain, right, rest) == f.compound.separator@ + ns_k(f, v@[m - 1], nx));
    }
}
pub proof fn lemma_terms_no_space_at(f: &NarseseFormat, v: Vec<Term>, n: nat, i: int)
    requires terms_no_space(f, v, n), n <= v@.len(), 0 <= i < n
    ensures term_no_space(f, v@[i])
    decreases n
{
    if i < n - 1 { lemma_terms_no_space_at(f, v, (n - 1) as nat, i); }
}

/// C02, term level, as an executable composition of the two real entry points
pub fn vx_roundtrip_term(f: &NarseseFormat, term: &Term) -> (r: ParseResult<Term>)
    requires
        lex_format_wf(f),
        // the three shipped formats strip the spaces before parsing (unit lexical_tables)
        f.space.remove_spaces_before_parse,
        format_no_space(f), term_no_space(f, *term),
        // the property's vocabulary hypotheses (see rt_term)
        rt_term(f, *term, Seq::<char>::empty()),
    ensures r matches Ok(t2) && term_eqv(t2, *term), //~ C02
{
    let s = f.format_term(term);
    proof {
        lemma_layout_stripped(f, *term, Seq::<char>::empty());
        assert(sp(f, lex_text(f, *term)) + Seq::<char>::empty() =~= sp(f, lex_text(f, *term)));
        assert(rt_hyp(f, idealized(f, s@), *term, Seq::<char>::empty()));
    }
    f.parse_term(&s)
}

// ------------------------------------------------------------------------------------------
// C02, sentence / task level
// ------------------------------------------------------------------------------------------
/// the strings of a lexical value (see RtV)
pub open spec fn rtv_of(n: Narsese) -> RtV {
    match n {
        NarseseValue::Term(t) => RtV { has_budget: false, budget: Seq::empty(), term: t, punct: Seq::empty(), stamp: Seq::empty(), truth: Seq::empty() },
        NarseseValue::Sentence(s) => RtV { has_budget: false, budget: Seq::empty(), term: s.term, punct: s.punctuation@, stamp: s.stamp@, truth: str_views(s.truth@) },
        NarseseValue::Task(t) => RtV { has_budget: true, budget: str_views(t.budget@), term: t.sentence.term, punct: t.sentence.punctuation@,
            stamp: t.sentence.stamp@, truth: str_views(t.sentence.truth@) },
    }
}
/// in addition to format_no_space: truth / budget brackets and separators carry no space character,
/// the inter-item space consists of space characters
pub open spec fn format_no_space2(f: &NarseseFormat) -> bool {
    &&& format_no_space(f)
    &&& no_space(f, f.sentence.truth_brackets.0@) && no_space(f, f.sentence.truth_brackets.1@) && no_space(f, f.sentence.truth_separator@)
    &&& no_space(f, f.task.budget_brackets.0@) && no_space(f, f.task.budget_brackets.1@) && no_space(f, f.task.budget_separator@)
    &&& all_space(f, f.space.format_items@)
}
pub open spec fn entries_no_space(f: &NarseseFormat, es: Seq<Seq<char>>) -> bool { forall|k: int| 0 <= k < es.len() ==> no_space(f, #[trigger] es[k]) }
pub open spec fn value_no_space(f: &NarseseFormat, v: RtV) -> bool {
    term_no_space(f, v.term) && no_space(f, v.punct) && no_space(f, v.stamp) && entries_no_space(f, v.budget) && entries_no_space(f, v.truth)
}
pub proof fn lemma_join_l_snoc(es: Seq<Seq<char>>, sep: Seq<char>)
    requires es.len() >= 2
    ensures join_l(es, sep) == join_l(es.drop_last(), sep) + sep + es.last()
    decreases es.len()
{
    let rest = es.drop_first();
    if es.len() == 2 {
        assert(rest.len() == 1);
        assert(join_l(rest, sep) == rest[0]);
        assert(es.drop_last().len() == 1);
        assert(join_l(es.drop_last(), sep) == es[0]);
        assert(es[0] + (sep + rest[0]) =~= es[0] + sep + es.last());
    } else {
        lemma_join_l_snoc(rest, sep);
        assert(rest.drop_last() =~= es.drop_last().drop_first());
        assert(rest.last() == es.last());
        assert(es.drop_last()[0] == es[0]);
        let m = join_l(rest.drop_last(), sep);
        assert(join_l(es.drop_last(), sep) == es[0] + (sep + m));
        assert(es[0] + (sep + (m + sep + es.last())) =~= (es[0] + (sep + m)) + sep + es.last());
    }
}
/// the formatter's `joined` over strings is join_l over their characters
pub proof fn lemma_joined_is_join_l(strs: Seq<String>, sep: Seq<char>)
    ensures joined(strs, sep) == join_l(str_views(strs), sep)
    decreases strs.len()
{
    let es = str_views(strs);
    if strs.len() == 0 {
    } else if strs.len() == 1 {
        assert(es[0] == strs[0]@);
    } else {
        lemma_joined_is_join_l(strs.drop_last(), sep);
        assert(str_views(strs.drop_last()) =~= es.drop_last());
        assert(es.last() == strs.last()@);
        lemma_join_l_snoc(es, sep);
    }
}
pub proof fn lemma_join_no_space(f: &NarseseFormat, es: Seq<Seq<char>>, sep: Seq<char>)
    requires entries_no_space(f, es), no_space(f, sep)
    ensures no_space(f, join_l(es, sep))
    decreases es.len()
{
    if es.len() >= 2 {
        let rest = es.drop_first();
        assert forall|k: int| 0 <= k < rest.len() implies no_space(f, #[trigger] rest[k]) by { assert(rest[k] == es[k + 1]); }
        lemma_join_no_space(f, rest, sep);
        let jr = join_l(rest, sep);
        let s = es[0] + (sep + jr);
        assert forall|i: int| 0 <= i < s.len() implies !f.space.is_for_parse.spec_call(#[trigger] s[i]) by {
            if i < es[0].len() { assert(s[i] == es[0][i]); }
            else if i < es[0].len() + sep.len() { assert(s[i] == sep[i - es[0].len()]); }
            else { assert(s[i] == jr[i - es[0].len() - sep.len()]); }
        }
    }
}
/// a bracketed list carries no space character
pub proof fn lemma_shape_list(f: &NarseseFormat, l: Seq<char>, strs: Seq<String>, sep: Seq<char>, r: Seq<char>)
    requires no_space(f, l), no_space(f, r), no_space(f, sep), entries_no_space(f, str_views(strs))
    ensures sp(f, l + joined(strs, sep) + r) == entries_text(str_views(strs), l, r, sep)
{
    lemma_joined_is_join_l(strs, sep);
    let j = join_l(str_views(strs), sep);
    lemma_join_no_space(f, str_views(strs), sep);
    lemma_strip_concat(f, l + j, r); lemma_strip_concat(f, l, j);
    lemma_strip_none(f, l); lemma_strip_none(f, r); lemma_strip_none(f, j);
    assert((l + j) + r =~= l + (j + r));
}
pub proof fn lemma_shape_sentence(f: &NarseseFormat, t: Seq<char>, p: Seq<char>, s: Seq<char>, spi: Seq<char>, tt: Seq<char>)
    requires no_space(f, p), no_space(f, s), all_space(f, spi)
    ensures sp(f, sentence_layout(t, p, s, tt, spi)) == ((sp(f, t) + p) + s) + sp(f, tt)
{
    let xs = if s.len() == 0 { s } else { spi + s };
    let ys = if tt.len() == 0 { tt } else { spi + tt };
    lemma_strip_concat(f, t + p + xs, ys);
    lemma_strip_concat(f, t + p, xs);
    lemma_strip_concat(f, t, p);
    lemma_strip_none(f, p); lemma_strip_none(f, s); lemma_strip_all(f, spi);
    lemma_strip_concat(f, spi, s);
    lemma_strip_concat(f, spi, tt);
    assert(sp(f, xs) =~= s);
    assert(sp(f, ys) =~= sp(f, tt));
}
pub proof fn lemma_shape_task(f: &NarseseFormat, bt: Seq<char>, spi: Seq<char>, st: Seq<char>)
    requires all_space(f, spi)
    ensures sp(f, bt + (spi + st)) == sp(f, bt) + sp(f, st)
{
    lemma_strip_concat(f, bt, spi + st);
    lemma_strip_concat(f, spi, st);
    lemma_strip_all(f, spi);
    assert(Seq::<char>::empty() + sp(f, st) =~= sp(f, st));
}
pub proof fn lemma_strip_len(f: &NarseseFormat, s: Seq<char>)
    ensures sp(f, s).len() <= s.len()
    decreases s.len()
{
    if s.len() > 0 { lemma_strip_len(f, s.drop_last()); }
}
/// strip(sentence_text) is term, punctuation, stamp, truth - the parser-side text of the sentence
pub proof fn lemma_sentence_stripped(f: &NarseseFormat, s: Sentence)
    requires format_no_space2(f), value_no_space(f, rtv_of(NarseseValue::Sentence(s))),
        s.truth@.len() > 0 ==> f.sentence.truth_brackets.0@.len() >= 1,
    ensures ({ let v = rtv_of(NarseseValue::Sentence(s));
        sp(f, sentence_text(f, s)) == ((rt_t(f, v) + v.punct) + v.stamp) + rt_tr(f, v) }),
{
    reveal(rt_t);
    let v = rtv_of(NarseseValue::Sentence(s));
    let tt = truth_text(f, s.truth);
    lemma_shape_sentence(f, lex_text(f, s.term), s.punctuation@, s.stamp@, f.space.format_items@, tt);
    lemma_layout_stripped(f, s.term, Seq::<char>::empty());
    assert(sp(f, lex_text(f, s.term)) + Seq::<char>::empty() =~= sp(f, lex_text(f, s.term)));
    if s.truth@.len() == 0 {
        assert(sp(f, tt) =~= Seq::<char>::empty());
        assert(str_views(s.truth@).len() == 0);
    } else {
        lemma_shape_list(f, f.sentence.truth_brackets.0@, s.truth@, f.sentence.truth_separator@, f.sentence.truth_brackets.1@);
        assert(str_views(s.truth@).len() == s.truth@.len());
    }
}
/// strip(narsese_text(n)) is the parser-side text of n
pub proof fn lemma_value_stripped(f: &NarseseFormat, n: Narsese)
    requires format_no_space2(f), value_no_space(f, rtv_of(n)),
        rtv_of(n).truth.len() > 0 ==> f.sentence.truth_brackets.0@.len() >= 1,
        rt_t(f, rtv_of(n)).len() > 0,
    ensures sp(f, narsese_text(f, n)) == rt_env(f, rtv_of(n)),
{
    let v = rtv_of(n);
    match n {
        NarseseValue::Term(t) => {
            reveal(rt_t);
            lemma_layout_stripped(f, t, Seq::<char>::empty());
            assert(sp(f, lex_text(f, t)) + Seq::<char>::empty() =~= sp(f, lex_text(f, t)));
            assert(rt_env(f, v) =~= rt_t(f, v));
        },
        NarseseValue::Sentence(s) => {
            assert(str_views(s.truth@).len() == s.truth@.len());
            lemma_sentence_stripped(f, s);
            assert(rt_env(f, v) =~= ((rt_t(f, v) + v.punct) + v.stamp) + rt_tr(f, v));
        },
        NarseseValue::Task(t) => {
            let s = t.sentence;
            let vs = rtv_of(NarseseValue::Sentence(s));
            assert(str_views(s.truth@).len() == s.truth@.len());
            assert(rt_t(f, vs) == rt_t(f, v)) by { reveal(rt_t); }
            lemma_sentence_stripped(f, s);
            let st = sentence_text(f, s);
            lemma_strip_len(f, st);
            assert(st.len() > 0);
            lemma_shape_task(f, budget_text(f, t.budget), f.space.format_items@, st);
            lemma_shape_list(f, f.task.budget_brackets.0@, t.budget@, f.task.budget_separator@, f.task.budget_brackets.1@);
            assert(rt_env(f, v) =~= rt_b(f, v) + (((rt_t(f, v) + v.punct) + v.stamp) + rt_tr(f, v)));
        },
    }
}

/// C02 as an executable composition of the two real entry points, for terms, sentences and tasks
pub fn vx_roundtrip_narsese(f: &NarseseFormat, n: &Narsese) -> (r: ParseResult<Narsese>)
    requires
        lex_format_wf(f),
        // the three shipped formats strip the spaces before parsing (unit lexical_tables)
        f.space.remove_spaces_before_parse,
        format_no_space2(f), value_no_space(f, rtv_of(*n)),
        // the property's vocabulary hypotheses (see rt_value / rt_term) and "a sentence has a punctuation"
        rt_value(f, rtv_of(*n)), rt_kind_ok(rtv_of(*n)),
    ensures r matches Ok(n2) && rt_narsese(n2, rtv_of(*n)), //~ C02
{
    let s = f.format_narsese(n);
    proof {
        let v = rtv_of(*n);
        reveal(rt_value);
        assert(v.truth.len() > 0 ==> f.sentence.truth_brackets.0@.len() >= 1);
        lemma_value_stripped(f, *n);
        assert(rt_vhyp(f, idealized(f, s@), v));
    }
    f.parse(&s)
}
