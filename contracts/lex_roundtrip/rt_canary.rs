/// vacuity guard for the C02 hypotheses: together they must not be contradictory (the solver must
/// NOT be able to derive false from them)
pub proof fn vx_canary_rt_hypotheses(f: &NarseseFormat, term: Term)
    requires lex_format_wf(f), f.space.remove_spaces_before_parse, format_no_space(f), term_no_space(f, term),
        rt_term(f, term, Seq::<char>::empty()), term is Statement, *term->subject is Compound, *term->predicate is Set,
{
    assert(false); // must fail (C02 hypotheses)
}
