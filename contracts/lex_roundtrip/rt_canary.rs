/// vacuity guard for the C02 hypotheses: together they must not be contradictory (the solver must
/// NOT be able to derive false from them)
pub proof fn vx_canary_rt_hypotheses(f: &NarseseFormat, term: Term)
    requires lex_format_wf(f), f.space.remove_spaces_before_parse, format_no_space(f), term_no_space(f, term),
        rt_term(f, term, Seq::<char>::empty()), term is Statement, *term->subject is Compound, *term->predicate is Set,
{
    assert(false); // must fail (C02 hypotheses)
}
/// the same for the sentence / task level hypotheses (a task with budget, stamp and truth)
pub proof fn vx_canary_rt_value_hypotheses(f: &NarseseFormat, n: Narsese)
    requires lex_format_wf(f), f.space.remove_spaces_before_parse, format_no_space2(f), value_no_space(f, rtv_of(n)),
        rt_value(f, rtv_of(n)), rt_kind_ok(rtv_of(n)),
        n is Task, rtv_of(n).budget.len() == 2, rtv_of(n).truth.len() == 2, rtv_of(n).stamp.len() > 0,
{
    reveal(rt_value);
    assert(false); // must fail (C02 value hypotheses)
}
/// ... and a sentence without stamp and truth
pub proof fn vx_canary_rt_value_hypotheses2(f: &NarseseFormat, n: Narsese)
    requires lex_format_wf(f), f.space.remove_spaces_before_parse, format_no_space2(f), value_no_space(f, rtv_of(n)),
        rt_value(f, rtv_of(n)), rt_kind_ok(rtv_of(n)),
        n is Sentence, rtv_of(n).truth.len() == 0, rtv_of(n).stamp.len() == 0,
{
    reveal(rt_value);
    assert(false); // must fail (C02 value hypotheses)
}
