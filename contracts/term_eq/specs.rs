// ---- C06: what `Term == Term` must compute ----
/// `teq(a, b)`: the value `Term::eq` returns for (a, b).  The recursion of Term::eq runs through
/// std's PartialEq impls for Box / Vec / HashSet, so inside one call the nested comparisons are
/// this same function; the contract below checks ONE unfolding, which is the inductive
/// definition of the relation.
pub uninterp spec fn teq(a: Term, b: Term) -> bool;
/// spec-only link: std's container comparisons use the element type's `eq_spec`
impl vstd::std_specs::cmp::PartialEqSpecImpl for Term {
    open spec fn obeys_eq_spec() -> bool { true }
    open spec fn eq_spec(&self, other: &Term) -> bool { teq(*self, *other) }
}
/// ASSUMED (std): `HashSet<Term> == HashSet<Term>` is "same number of elements and every element of
/// the one is found (by hash, then ==) in the other".  With a Hash that respects == (C07) that
/// is set equality modulo teq.
pub uninterp spec fn set_eq_u<T, S, A: std::alloc::Allocator>(a: HashSet<T, S, A>, b: HashSet<T, S, A>) -> bool;
pub assume_specification<T: Eq + std::hash::Hash, S: std::hash::BuildHasher, A: std::alloc::Allocator>[ <HashSet<T, S, A> as PartialEq>::eq ](a: &HashSet<T, S, A>, b: &HashSet<T, S, A>) -> (r: bool)
    ensures r == set_eq_u(*a, *b);
pub open spec fn set_teq(a: HashSet<Term>, b: HashSet<Term>) -> bool { set_eq_u(a, b) }

pub open spec fn vec_teq(a: Seq<Term>, b: Seq<Term>) -> bool {
    a.len() == b.len() && forall|i: int| 0 <= i < a.len() ==> teq(a[i], b[i])
}

/// the rule of the property: same constructor; equal names / numbers; ordered compounds, images
/// (index AND components) and asymmetric statements pairwise in order; unordered compounds by
/// set comparison; similarity / equivalence / concurrent equivalence in either operand order;
/// different constructors are never equal.
pub open spec fn eq_rule(a: Term, b: Term) -> bool {
    match (a, b) {
        (Term::Placeholder, Term::Placeholder) => true,
        (Term::Interval(x), Term::Interval(y)) => x == y,
        (Term::Word(x), Term::Word(y)) | (Term::VariableIndependent(x), Term::VariableIndependent(y))
        | (Term::VariableDependent(x), Term::VariableDependent(y)) | (Term::VariableQuery(x), Term::VariableQuery(y))
        | (Term::Operator(x), Term::Operator(y)) => x@ == y@,
        (Term::SetExtension(x), Term::SetExtension(y)) | (Term::SetIntension(x), Term::SetIntension(y))
        | (Term::IntersectionExtension(x), Term::IntersectionExtension(y))
        | (Term::IntersectionIntension(x), Term::IntersectionIntension(y))
        | (Term::Conjunction(x), Term::Conjunction(y)) | (Term::Disjunction(x), Term::Disjunction(y))
        | (Term::ConjunctionParallel(x), Term::ConjunctionParallel(y)) => set_teq(x, y),
        (Term::DifferenceExtension(a1, a2), Term::DifferenceExtension(b1, b2))
        | (Term::DifferenceIntension(a1, a2), Term::DifferenceIntension(b1, b2))
        | (Term::Inheritance(a1, a2), Term::Inheritance(b1, b2))
        | (Term::Implication(a1, a2), Term::Implication(b1, b2))
        | (Term::ImplicationPredictive(a1, a2), Term::ImplicationPredictive(b1, b2))
        | (Term::ImplicationConcurrent(a1, a2), Term::ImplicationConcurrent(b1, b2))
        | (Term::ImplicationRetrospective(a1, a2), Term::ImplicationRetrospective(b1, b2))
        | (Term::EquivalencePredictive(a1, a2), Term::EquivalencePredictive(b1, b2)) => teq(*a1, *b1) && teq(*a2, *b2),
        (Term::ImageExtension(i, v), Term::ImageExtension(j, w)) | (Term::ImageIntension(i, v), Term::ImageIntension(j, w)) =>
            i == j && vec_teq(v@, w@),
        (Term::Product(v), Term::Product(w)) | (Term::ConjunctionSequential(v), Term::ConjunctionSequential(w)) => vec_teq(v@, w@),
        (Term::Negation(x), Term::Negation(y)) => teq(*x, *y),
        (Term::Similarity(a1, a2), Term::Similarity(b1, b2)) | (Term::Equivalence(a1, a2), Term::Equivalence(b1, b2))
        | (Term::EquivalenceConcurrent(a1, a2), Term::EquivalenceConcurrent(b1, b2)) =>
            (teq(*a1, *b1) && teq(*a2, *b2)) || (teq(*a1, *b2) && teq(*a2, *b1)),
        _ => false,
    }
}

/// the rule is reflexive / symmetric on the root whenever the component relation is
pub proof fn lemma_rule_reflexive(a: Term)
    requires forall|x: Term| teq(x, x), forall|s: HashSet<Term>| set_teq(s, s),
    ensures eq_rule(a, a)
{}
pub proof fn lemma_rule_symmetric(a: Term, b: Term)
    requires forall|x: Term, y: Term| teq(x, y) == teq(y, x), forall|s: HashSet<Term>, t: HashSet<Term>| set_teq(s, t) == set_teq(t, s),
    ensures eq_rule(a, b) == eq_rule(b, a)
{}

/// `Term == Term` itself (the recursive call): by definition of teq
pub assume_specification[ <Term as PartialEq>::eq ](a: &Term, b: &Term) -> (r: bool)
    ensures r == teq(*a, *b);
