// ---- hand written: C01, the parser side.  HYPOTHESES under which the text of a layout
// (common/lay_specs.rs) is read back by the recursive descent parser, stated on the input `e` and
// the position `p` where the text stands: the text is there, and at every place where the parser
// looks a keyword up the one the layout was written with is the one it finds (keyword priority,
// maximal-munch atom names, exact skipping of the glue between components). ----
pub open spec fn valid_name_char(f: &NarseseFormat<&str>, c: char) -> bool { f.is_valid_atom_name.spec_call(c) }

/// keyword ks[k] occurs at p and no earlier listed one does
pub open spec fn first_at_e(e: Seq<char>, p: int, ks: Seq<Seq<char>>, k: int) -> bool {
    0 <= k < ks.len() && kw_at(e, p, ks[k]) && forall|j: int| 0 <= j < k ==> !kw_at(e, p, #[trigger] ks[j])
}
/// which branch of parse_term is taken at p: 0 extension set, 1 intension set, 2 compound,
/// 3 statement, 4 atom (the fallback)
pub open spec fn term_branch(f: &NarseseFormat<&str>, e: Seq<char>, p: int) -> int {
    if kw_at(e, p, f.compound.brackets_set_extension.0@) { 0 }
    else if kw_at(e, p, f.compound.brackets_set_intension.0@) { 1 }
    else if kw_at(e, p, f.compound.brackets.0@) { 2 }
    else if kw_at(e, p, f.statement.brackets.0@) { 3 }
    else { 4 }
}
/// where the component loop's skipping (space keyword first, then separator) ends
pub open spec fn skip_end(f: &NarseseFormat<&str>, e: Seq<char>, x: int) -> int
    decreases e.len() - x
{
    let sp = f.space.parse@; let sep = f.compound.separator@;
    if sp.len() > 0 && kw_at(e, x, sp) { skip_end(f, e, x + sp.len()) }
    else if sep.len() > 0 && kw_at(e, x, sep) { skip_end(f, e, x + sep.len()) }
    else { x }
}
/// the i-th item is the first placeholder among the items
pub open spec fn lay_first_ph(items: Seq<Lay>, i: int) -> bool {
    0 <= i < items.len() && (items[i] matches Lay::Atom { k, .. } && k == 0)
        && forall|j: int| 0 <= j < i ==> !(#[trigger] items[j] matches Lay::Atom { k, .. } && k == 0)
}
pub open spec fn lay_ok(f: &NarseseFormat<&str>, e: Seq<char>, l: Lay, p: int) -> bool
    decreases l, 0nat
{
    &&& 0 <= p
    &&& kw_at(e, p, lay_text(f, l))
    &&& match l {
        Lay::Atom { k, name } => {
            let q = p + atom_try_order(f)[k].len();
            let r = q + name.len();
            &&& 0 <= k < 7
            &&& term_branch(f, e, p) == 4
            &&& first_at_e(e, p, atom_try_order(f), k)
            // the name is made of name characters, and no copula starts inside it ...
            &&& (forall|j: int| q <= j < r ==> valid_name_char(f, #[trigger] e[j]))
            &&& (forall|j: int| q <= j < r ==> !#[trigger] copula_at_e(f, e, j))
            // ... and it ends where the text says: end of input, a copula, or a non-name character
            &&& (r >= e.len() || copula_at_e(f, e, r) || !valid_name_char(f, e[r]))
            &&& (k == 0 ==> name.len() == 0) && (k != 0 ==> name.len() > 0)
            &&& (k == 4 ==> crate::enum_narsese::parse_spec::<usize>(name) is Some)
        },
        Lay::Set { ext, items } => {
            &&& term_branch(f, e, p) == (if ext { 0int } else { 1int })
            &&& items.len() > 0 && set_close(f, ext).len() > 0
            &&& list_ok(f, e, items, 0, p + set_open(f, ext).len(), set_close(f, ext), Seq::empty())
        },
        Lay::Compound { k, items } => {
            let c = p + f.compound.brackets.0@.len();
            &&& 0 <= k < 12
            &&& term_branch(f, e, p) == 2
            &&& !kw_at(e, c, f.space.parse@)
            &&& !kw_at(e, c, f.atom.prefix_operator@)
            &&& first_at_e(e, c, compound_try_order(f), k)
            &&& items.len() > 0 && f.compound.brackets.1@.len() > 0
            &&& (k == 2 ==> items.len() == 1) && ((k == 7 || k == 8) ==> items.len() == 2)
            &&& ((k == 10 || k == 11) ==> exists|i: int| #[trigger] lay_first_ph(items, i))
            &&& list_ok(f, e, items, 0, c + compound_try_order(f)[k].len(), f.compound.brackets.1@, lay_sep(f))
        },
        Lay::Stmt { k, l: a, r: b } => {
            let sp = f.space.parse@;
            let pa = p + f.statement.brackets.0@.len();
            let ea = pa + lay_text(f, *a).len();
            let pc = ea + f.space.format_terms@.len();
            let pb = pc + copula_seq(f)[k].len() + f.space.format_terms@.len();
            let eb = pb + lay_text(f, *b).len();
            &&& 0 <= k < 13
            &&& term_branch(f, e, p) == 3
            &&& !kw_at(e, pa, sp)
            &&& lay_ok(f, e, *a, pa)
            // the spaces after the subject are exactly the term-level space the formatter wrote
            &&& spaces_end(e, sp, ea) == pc
            &&& first_at_e(e, pc, copula_seq(f), k)
            &&& spaces_end(e, sp, pc + copula_seq(f)[k].len()) == pb
            &&& lay_ok(f, e, *b, pb)
            &&& !kw_at(e, eb, sp)
        },
    }
}
/// from x the component loop reads items[n..] and stops at the closing bracket `rb`; the first
/// item is preceded by the glue g0, every other one by lay_sep
pub open spec fn list_ok(f: &NarseseFormat<&str>, e: Seq<char>, items: Seq<Lay>, n: nat, x: int, rb: Seq<char>, g0: Seq<char>) -> bool
    decreases items, items.len() - n
{
    if n >= items.len() { skip_end(f, e, x) == x && kw_at(e, x, rb) }
    else {
        let g = if n == 0 { g0 } else { lay_sep(f) };
        let y = x + g.len();
        skip_end(f, e, x) == y && !kw_at(e, y, rb) && lay_ok(f, e, items[n as int], y)
            && list_ok(f, e, items, n + 1, y + lay_text(f, items[n as int]).len(), rb, g0)
    }
}
/// the position right after item n-1 (after n items)
pub open spec fn list_pos(f: &NarseseFormat<&str>, items: Seq<Lay>, n: nat, x0: int, g0: Seq<char>) -> int
    decreases n
{
    if n == 0 || n > items.len() { x0 }
    else { list_pos(f, items, (n - 1) as nat, x0, g0) + (if n == 1 { g0 } else { lay_sep(f) }).len() + lay_text(f, items[n - 1]).len() }
}
pub proof fn lemma_list_ok_at(f: &NarseseFormat<&str>, e: Seq<char>, items: Seq<Lay>, n: nat, x0: int, rb: Seq<char>, g0: Seq<char>)
    requires list_ok(f, e, items, 0, x0, rb, g0), n <= items.len()
    ensures list_ok(f, e, items, n, list_pos(f, items, n, x0, g0), rb, g0)
    decreases n
{
    if n > 0 {
        lemma_list_ok_at(f, e, items, (n - 1) as nat, x0, rb, g0);
    }
}
/// the parser-side hypothesis at the cursor
pub open spec fn e_hyp(st: &ParseState<'_, &str>, l: Lay) -> bool {
    lay_ok(st.format, st.env@, l, st.head as int)
}
/// ... and what the parser returns then: a term with this layout, the cursor right after the text
pub open spec fn e_res(r: ParseResult<Term>, st: &ParseState<'_, &str>, st0: &ParseState<'_, &str>, l: Lay) -> bool {
    r matches Ok(t) && lay_of(l, t) && st.head == st0.head + lay_text(st0.format, l).len()
}

/// parse_atom after its scanning loop: the prefix selected the layout's kind, the cursor stands
/// right after the layout's text and the name buffer holds the layout's name
pub open spec fn atom_mid(st0: &ParseState<'_, &str>, l: Lay, term: Term, head: int, buf: Seq<char>) -> bool {
    l matches Lay::Atom { k, name } && first_at_e(st0.env@, st0.head as int, atom_try_order(st0.format), k)
        && head == st0.head + lay_text(st0.format, l).len() && buf == name
        && (k != 0 ==> name.len() > 0) && (k == 0 ==> name.len() == 0) && (k == 4 ==> crate::enum_narsese::parse_spec::<usize>(name) is Some)
}
/// the scanning loop stops exactly at the end of the layout's name
pub proof fn lemma_atom_scan(st0: &ParseState<'_, &str>, st: &ParseState<'_, &str>, l: Lay, h0: int, buf: Seq<char>)
    requires
        e_hyp(st0, l), l is Atom, st.same_but_head(st0), st.wf(),
        h0 == st0.head + atom_try_order(st0.format)[l->Atom_k].len(),
        st.head == h0 + buf.len(),
        forall|j: int| h0 <= j < st.head ==> !st0.copula_at(j),
        st.head == h0 || st.head <= st.env@.len(),
        forall|j: int| h0 <= j < st.head ==> valid_name_char(st.format, #[trigger] st.env@[j]),
        forall|j: int| h0 <= j < st.head ==> #[trigger] buf[j - h0] == st.env@[j],
        st.name_ended(),
    ensures atom_mid(st0, l, arbitrary(), st.head as int, buf), buf == l->Atom_name,
        st.head == st0.head + lay_text(st0.format, l).len(),
{
    let f = st0.format; let e = st0.env@; let p = st0.head as int;
    let k = l->Atom_k; let name = l->Atom_name;
    let q = h0; let r = q + name.len();
    let text = lay_text(f, l);
    assert(lay_ok(f, e, l, p));
    assert(l == Lay::Atom { k, name });
    assert(forall|j: int| q <= j < r ==> valid_name_char(f, #[trigger] e[j]));
    assert(forall|j: int| q <= j < r ==> !#[trigger] copula_at_e(f, e, j));
    assert(r >= e.len() || copula_at_e(f, e, r) || !valid_name_char(f, e[r]));
    assert(text =~= atom_try_order(f)[k] + name);
    assert(kw_at(e, p, text));
    assert(r == p + text.len());
    // not before the end of the name ...
    if st.head < r {
        let j = st.head as int;
        assert(!copula_at_e(f, e, j));
        assert(valid_name_char(f, e[j]));
        assert(false);
    }
    // ... and not after it
    if st.head > r {
        assert(!st0.copula_at(r));
        assert(valid_name_char(f, e[r]));
        assert(false);
    }
    assert(buf =~= name) by {
        assert forall|i: int| 0 <= i < name.len() implies buf[i] == name[i] by {
            assert(buf[(q + i) - h0] == e[q + i]);
            assert(e.subrange(p, p + text.len())[q + i - p] == e[q + i]);
            assert(text[q + i - p] == name[i]);
        }
    }
}

/// one of the seven atom prefixes stands at the cursor
pub open spec fn atom_prefix_here(st: &ParseState<'_, &str>) -> bool {
    let f = st.format;
    st.at_head(f.atom.prefix_placeholder@) || st.at_head(f.atom.prefix_variable_independent@)
        || st.at_head(f.atom.prefix_variable_dependent@) || st.at_head(f.atom.prefix_variable_query@)
        || st.at_head(f.atom.prefix_interval@) || st.at_head(f.atom.prefix_operator@) || st.at_head(f.atom.prefix_word@)
}
