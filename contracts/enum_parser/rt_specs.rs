// ---- hand written: C01, the parser side.  HYPOTHESES under which the text of a layout
// (common/lay_specs.rs) is read back by the recursive descent parser, stated on the input `e` and
// the position `p` where the text stands: the text is there, and at every place where the parser
// looks a keyword up the one the layout was written with is the one it finds (keyword priority,
// maximal-munch atom names, exact skipping of the glue between components). ----
pub open spec fn valid_name_char(f: &NarseseFormat<&str>, c: char) -> bool { f.is_valid_atom_name.spec_call(c) }

/// keyword ks[k] occurs at p and no earlier listed one does
pub open spec fn first_at_e(e: Seq<char>, p: int, ks: Seq<Seq<char>>, k: int) -> bool {
    0 <= k < ks.len() && kw_at(e, p, ks[k]) && forall|j: int| 0 <= j < k ==> !kw_at(e, p, #[trigger] ks[j])
}
/// which branch of parse_term is taken at p: 0 extension set, 1 intension set, 2 compound,
/// 3 statement, 4 atom (the fallback)
pub open spec fn term_branch(f: &NarseseFormat<&str>, e: Seq<char>, p: int) -> int {
    if kw_at(e, p, f.compound.brackets_set_extension.0@) { 0 }
    else if kw_at(e, p, f.compound.brackets_set_intension.0@) { 1 }
    else if kw_at(e, p, f.compound.brackets.0@) { 2 }
    else if kw_at(e, p, f.statement.brackets.0@) { 3 }
    else { 4 }
}
/// where the component loop's skipping (space keyword first, then separator) ends
pub open spec fn skip_end(f: &NarseseFormat<&str>, e: Seq<char>, x: int) -> int
    decreases e.len() - x
{
    let sp = f.space.parse@; let sep = f.compound.separator@;
    if sp.len() > 0 && kw_at(e, x, sp) { skip_end(f, e, x + sp.len()) }
    else if sep.len() > 0 && kw_at(e, x, sep) { skip_end(f, e, x + sep.len()) }
    else { x }
}
/// the i-th item is the first placeholder among the items
pub open spec fn lay_first_ph(items: Seq<Lay>, i: int) -> bool {
    0 <= i < items.len() && (items[i] matches Lay::Atom { k, .. } && k == 0)
        && forall|j: int| 0 <= j < i ==> !(#[trigger] items[j] matches Lay::Atom { k, .. } && k == 0)
}
pub open spec fn lay_ok(f: &NarseseFormat<&str>, e: Seq<char>, l: Lay, p: int) -> bool
    decreases l, 0nat
{
    &&& 0 <= p
    &&& kw_at(e, p, lay_text(f, l))
    &&& match l {
        Lay::Atom { k, name } => {
            let q = p + atom_try_order(f)[k].len();
            let r = q + name.len();
            &&& 0 <= k < 7
            &&& term_branch(f, e, p) == 4
            &&& first_at_e(e, p, atom_try_order(f), k)
            // the name is made of name characters, and no copula starts inside it ...
            &&& (forall|j: int| q <= j < r ==> valid_name_char(f, #[trigger] e[j]))
            &&& (forall|j: int| q <= j < r ==> !#[trigger] copula_at_e(f, e, j))
            // ... and it ends where the text says: end of input, a copula, or a non-name character
            &&& (r >= e.len() || copula_at_e(f, e, r) || !valid_name_char(f, e[r]))
            &&& (k == 0 ==> name.len() == 0) && (k != 0 ==> name.len() > 0)
            &&& (k == 4 ==> crate::enum_narsese::parse_spec::<usize>(name) is Some)
        },
        Lay::Set { ext, items } => {
            &&& term_branch(f, e, p) == (if ext { 0int } else { 1int })
            &&& items.len() > 0 && set_close(f, ext).len() > 0
            &&& list_ok(f, e, items, 0, p + set_open(f, ext).len(), set_close(f, ext), Seq::empty())
        },
        Lay::Compound { k, items } => {
            let c = p + f.compound.brackets.0@.len();
            &&& 0 <= k < 12
            &&& term_branch(f, e, p) == 2
            &&& !kw_at(e, c, f.space.parse@)
            &&& !kw_at(e, c, f.atom.prefix_operator@)
            &&& first_at_e(e, c, compound_try_order(f), k)
            &&& items.len() > 0 && f.compound.brackets.1@.len() > 0
            &&& (k == 2 ==> items.len() == 1) && ((k == 7 || k == 8) ==> items.len() == 2)
            &&& ((k == 10 || k == 11) ==> exists|i: int| #[trigger] lay_first_ph(items, i))
            &&& list_ok(f, e, items, 0, c + compound_try_order(f)[k].len(), f.compound.brackets.1@, lay_sep(f))
        },
        Lay::Stmt { k, l: a, r: b } => {
            let sp = f.space.parse@;
            let pa = p + f.statement.brackets.0@.len();
            let ea = pa + lay_text(f, *a).len();
            let pc = ea + f.space.format_terms@.len();
            let pb = pc + copula_seq(f)[k].len() + f.space.format_terms@.len();
            let eb = pb + lay_text(f, *b).len();
            &&& stmt_k_ok(k)
            &&& term_branch(f, e, p) == 3
            &&& !kw_at(e, pa, sp)
            &&& lay_ok(f, e, *a, pa)
            // the spaces after the subject are exactly the term-level space the formatter wrote
            &&& spaces_end(e, sp, ea) == pc
            &&& first_at_e(e, pc, copula_seq(f), k)
            &&& spaces_end(e, sp, pc + copula_seq(f)[k].len()) == pb
            &&& lay_ok(f, e, *b, pb)
            &&& !kw_at(e, eb, sp)
        },
    }
}
/// from x the component loop reads items[n..] and stops at the closing bracket `rb`; the first
/// item is preceded by the glue g0, every other one by lay_sep
pub open spec fn list_ok(f: &NarseseFormat<&str>, e: Seq<char>, items: Seq<Lay>, n: nat, x: int, rb: Seq<char>, g0: Seq<char>) -> bool
    decreases items, items.len() - n
{
    if n >= items.len() { skip_end(f, e, x) == x && kw_at(e, x, rb) }
    else {
        let g = if n == 0 { g0 } else { lay_sep(f) };
        let y = x + g.len();
        skip_end(f, e, x) == y && !kw_at(e, y, rb) && lay_ok(f, e, items[n as int], y)
            && list_ok(f, e, items, n + 1, y + lay_text(f, items[n as int]).len(), rb, g0)
    }
}
/// the position right after item n-1 (after n items)
pub open spec fn list_pos(f: &NarseseFormat<&str>, items: Seq<Lay>, n: nat, x0: int, g0: Seq<char>) -> int
    decreases n
{
    if n == 0 || n > items.len() { x0 }
    else { list_pos(f, items, (n - 1) as nat, x0, g0) + (if n == 1 { g0 } else { lay_sep(f) }).len() + lay_text(f, items[n - 1]).len() }
}
pub proof fn lemma_list_ok_at(f: &NarseseFormat<&str>, e: Seq<char>, items: Seq<Lay>, n: nat, x0: int, rb: Seq<char>, g0: Seq<char>)
    requires list_ok(f, e, items, 0, x0, rb, g0), n <= items.len()
    ensures list_ok(f, e, items, n, list_pos(f, items, n, x0, g0), rb, g0)
    decreases n
{
    if n > 0 {
        lemma_list_ok_at(f, e, items, (n - 1) as nat, x0, rb, g0);
    }
}
/// the parser-side hypothesis at the cursor
pub open spec fn e_hyp(st: &ParseState<'_, &str>, l: Lay) -> bool {
    lay_ok(st.format, st.env@, l, st.head as int)
}
/// ... and what the parser returns then: a term with this layout, the cursor right after the text
pub open spec fn e_res(r: ParseResult<Term>, st: &ParseState<'_, &str>, st0: &ParseState<'_, &str>, l: Lay) -> bool {
    r matches Ok(t) && lay_of(l, t) && st.head == st0.head + lay_text(st0.format, l).len()
}

/// parse_atom after its scanning loop: the prefix selected the layout's kind, the cursor stands
/// right after the layout's text and the name buffer holds the layout's name
pub open spec fn atom_mid(st0: &ParseState<'_, &str>, l: Lay, term: Term, head: int, buf: Seq<char>) -> bool {
    l matches Lay::Atom { k, name } && first_at_e(st0.env@, st0.head as int, atom_try_order(st0.format), k)
        && head == st0.head + lay_text(st0.format, l).len() && buf == name
        && (k != 0 ==> name.len() > 0) && (k == 0 ==> name.len() == 0) && (k == 4 ==> crate::enum_narsese::parse_spec::<usize>(name) is Some)
}
/// the scanning loop stops exactly at the end of the layout's name
pub proof fn lemma_atom_scan(st0: &ParseState<'_, &str>, st: &ParseState<'_, &str>, l: Lay, h0: int, buf: Seq<char>)
    requires
        e_hyp(st0, l), l is Atom, st.same_but_head(st0), st.wf(),
        h0 == st0.head + atom_try_order(st0.format)[l->Atom_k].len(),
        st.head == h0 + buf.len(),
        forall|j: int| h0 <= j < st.head ==> !st0.copula_at(j),
        st.head == h0 || st.head <= st.env@.len(),
        forall|j: int| h0 <= j < st.head ==> valid_name_char(st.format, #[trigger] st.env@[j]),
        forall|j: int| h0 <= j < st.head ==> #[trigger] buf[j - h0] == st.env@[j],
        st.name_ended(),
    ensures atom_mid(st0, l, arbitrary(), st.head as int, buf), buf == l->Atom_name,
        st.head == st0.head + lay_text(st0.format, l).len(),
{
    let f = st0.format; let e = st0.env@; let p = st0.head as int;
    let k = l->Atom_k; let name = l->Atom_name;
    let q = h0; let r = q + name.len();
    let text = lay_text(f, l);
    assert(lay_ok(f, e, l, p));
    assert(l == Lay::Atom { k, name });
    assert(forall|j: int| q <= j < r ==> valid_name_char(f, #[trigger] e[j]));
    assert(forall|j: int| q <= j < r ==> !#[trigger] copula_at_e(f, e, j));
    assert(r >= e.len() || copula_at_e(f, e, r) || !valid_name_char(f, e[r]));
    assert(text =~= atom_try_order(f)[k] + name);
    assert(kw_at(e, p, text));
    assert(r == p + text.len());
    // not before the end of the name ...
    if st.head < r {
        let j = st.head as int;
        assert(!copula_at_e(f, e, j));
        assert(valid_name_char(f, e[j]));
        assert(false);
    }
    // ... and not after it
    if st.head > r {
        assert(!st0.copula_at(r));
        assert(valid_name_char(f, e[r]));
        assert(false);
    }
    assert(buf =~= name) by {
        assert forall|i: int| 0 <= i < name.len() implies buf[i] == name[i] by {
            assert(buf[(q + i) - h0] == e[q + i]);
            assert(e.subrange(p, p + text.len())[q + i - p] == e[q + i]);
            assert(text[q + i - p] == name[i]);
        }
    }
}

/// one of the seven atom prefixes stands at the cursor
pub open spec fn atom_prefix_here(st: &ParseState<'_, &str>) -> bool {
    let f = st.format;
    st.at_head(f.atom.prefix_placeholder@) || st.at_head(f.atom.prefix_variable_independent@)
        || st.at_head(f.atom.prefix_variable_dependent@) || st.at_head(f.atom.prefix_variable_query@)
        || st.at_head(f.atom.prefix_interval@) || st.at_head(f.atom.prefix_operator@) || st.at_head(f.atom.prefix_word@)
}

// ---- the component loop (parse_compound_terms) ----
/// hypothesis at the loop's entry: from the cursor the items are laid out up to `rb`
pub open spec fn list_hyp(st0: &ParseState<'_, &str>, items: Seq<Lay>, rb: Seq<char>, g0: Seq<char>) -> bool {
    list_ok(st0.format, st0.env@, items, 0, st0.head as int, rb, g0) && rb.len() > 0 && format_wf(st0.format)
}
/// loop invariant: n = the number of terms appended so far are the first n items, and the cursor
/// is somewhere in the run of spaces / separators after item n-1
pub open spec fn list_inv(st0: &ParseState<'_, &str>, head: int, items: Seq<Lay>, g0: Seq<char>, t0: Seq<Term>, t: Seq<Term>) -> bool {
    let n = t.len() - t0.len();
    let xn = list_pos(st0.format, items, n as nat, st0.head as int, g0);
    &&& 0 <= n <= items.len()
    &&& xn <= head
    &&& skip_end(st0.format, st0.env@, head) == skip_end(st0.format, st0.env@, xn)
    &&& forall|i: int| t0.len() <= i < t.len() ==> lay_of(items[i - t0.len()], #[trigger] t[i])
}
/// the loop is done: all items read, the cursor on the closing bracket
pub open spec fn list_done(st0: &ParseState<'_, &str>, head: int, items: Seq<Lay>, rb: Seq<char>, g0: Seq<char>, t0: Seq<Term>, t: Seq<Term>) -> bool {
    &&& t.len() == t0.len() + items.len()
    &&& head == list_pos(st0.format, items, items.len(), st0.head as int, g0)
    &&& kw_at(st0.env@, head, rb)
    &&& !kw_at(st0.env@, head, st0.format.space.parse@)
    &&& forall|i: int| t0.len() <= i < t.len() ==> lay_of(items[i - t0.len()], #[trigger] t[i])
}
/// what one iteration does, by what stands at the cursor `st.head`
pub open spec fn list_cases(st0: &ParseState<'_, &str>, st: &ParseState<'_, &str>, items: Seq<Lay>, rb: Seq<char>, g0: Seq<char>, t0: Seq<Term>, t: Seq<Term>) -> bool {
    let f = st0.format; let e = st0.env@; let h = st.head as int;
    let sp = f.space.parse@; let sep = f.compound.separator@;
    let n = t.len() - t0.len();
    &&& h < e.len()
    &&& (kw_at(e, h, sp) ==> list_inv(st0, h + sp.len(), items, g0, t0, t))
    &&& (!kw_at(e, h, sp) && kw_at(e, h, sep) ==> list_inv(st0, h + sep.len(), items, g0, t0, t))
    &&& (!kw_at(e, h, sp) && !kw_at(e, h, sep) && kw_at(e, h, rb) ==> list_done(st0, h, items, rb, g0, t0, t))
    &&& (!kw_at(e, h, sp) && !kw_at(e, h, sep) && !kw_at(e, h, rb) ==> 0 <= n < items.len() && e_hyp(st, items[n])
            && h + lay_text(f, items[n]).len() == list_pos(f, items, (n + 1) as nat, st0.head as int, g0))
}
/// the text of a readable layout is not empty
pub proof fn lemma_lay_text_nonempty(f: &NarseseFormat<&str>, e: Seq<char>, l: Lay, p: int)
    requires lay_ok(f, e, l, p), format_wf(f)
    ensures lay_text(f, l).len() > 0
{
    match l {
        Lay::Atom { k, name } => {
            if k == 0 { assert(atom_try_order(f)[0] == f.atom.prefix_placeholder@); }
        },
        _ => {},
    }
}
pub proof fn lemma_list_cases(st0: &ParseState<'_, &str>, st: &ParseState<'_, &str>, items: Seq<Lay>, rb: Seq<char>, g0: Seq<char>, t0: Seq<Term>, t: Seq<Term>)
    requires
        list_hyp(st0, items, rb, g0), st.same_but_head(st0), list_inv(st0, st.head as int, items, g0, t0, t),
    ensures
        // the loop never runs off the end of the input before the closing bracket
        st.head >= st0.env@.len() ==> false,
        st.head < st0.env@.len() ==> list_cases(st0, st, items, rb, g0, t0, t),
{
    let f = st0.format; let e = st0.env@; let h = st.head as int;
    let sp = f.space.parse@; let sep = f.compound.separator@;
    let n = (t.len() - t0.len()) as nat;
    let xn = list_pos(f, items, n, st0.head as int, g0);
    lemma_list_ok_at(f, e, items, n, st0.head as int, rb, g0);
    assert(list_ok(f, e, items, n, xn, rb, g0));
    if !kw_at(e, h, sp) && !kw_at(e, h, sep) {
        assert(skip_end(f, e, h) == h);
        if n < items.len() {
            let g = if n == 0 { g0 } else { lay_sep(f) };
            assert(h == xn + g.len());
            assert(lay_ok(f, e, items[n as int], h));
            lemma_lay_text_nonempty(f, e, items[n as int], h);
            assert(e_hyp(st, items[n as int]));
        } else {
            assert(h == xn);
        }
    }
}
/// one iteration keeps the invariant: `a` the state and targets at the start of the iteration
/// (where list_cases holds), `b` at its end; either a space / separator was skipped (targets
/// unchanged) or one term with the next item's layout was appended
pub proof fn lemma_list_step(st0: &ParseState<'_, &str>, a: &ParseState<'_, &str>, b: &ParseState<'_, &str>, items: Seq<Lay>, rb: Seq<char>, g0: Seq<char>, t0: Seq<Term>, ta: Seq<Term>, tb: Seq<Term>)
    requires
        list_hyp(st0, items, rb, g0), a.same_but_head(st0), b.same_but_head(st0),
        list_inv(st0, a.head as int, items, g0, t0, ta),
        list_cases(st0, a, items, rb, g0, t0, ta),
        ta.len() >= t0.len(),
        // what the three non-breaking arms do
        ({
            let e = st0.env@; let h = a.head as int; let sp = st0.format.space.parse@; let sep = st0.format.compound.separator@;
            ||| (kw_at(e, h, sp) && b.head == h + sp.len() && tb == ta)
            ||| (!kw_at(e, h, sp) && kw_at(e, h, sep) && b.head == h + sep.len() && tb == ta)
            ||| (!kw_at(e, h, sp) && !kw_at(e, h, sep) && !kw_at(e, h, rb)
                && (exists|t: Term| tb == ta.push(t) && #[trigger] lay_of(items[ta.len() - t0.len()], t))
                && b.head == h + lay_text(st0.format, items[ta.len() - t0.len()]).len())
        }),
    ensures list_inv(st0, b.head as int, items, g0, t0, tb),
{
    let f = st0.format; let e = st0.env@; let h = a.head as int;
    let sp = f.space.parse@; let sep = f.compound.separator@;
    if !kw_at(e, h, sp) && !kw_at(e, h, sep) {
        let n = ta.len() - t0.len();
        let t = choose|t: Term| tb == ta.push(t) && #[trigger] lay_of(items[n], t);
        assert forall|i: int| t0.len() <= i < tb.len() implies lay_of(items[i - t0.len()], #[trigger] tb[i]) by {
            if i < ta.len() { assert(tb[i] == ta[i]); }
        }
    }
}

// ---- sets: bracket, items, bracket (parse_term_set) ----
pub open spec fn set_hyp(st0: &ParseState<'_, &str>, items: Seq<Lay>, lb: Seq<char>, rb: Seq<char>) -> bool {
    items.len() > 0 && rb.len() > 0 && format_wf(st0.format)
        && list_ok(st0.format, st0.env@, items, 0, st0.head + lb.len(), rb, Seq::empty())
}
pub open spec fn set_res(r: ParseResult<Vec<Term>>, st: &ParseState<'_, &str>, st0: &ParseState<'_, &str>, items: Seq<Lay>, lb: Seq<char>, rb: Seq<char>, t0: Seq<Term>) -> bool {
    &&& r matches Ok(v) && v@.len() == t0.len() + items.len()
        && forall|i: int| t0.len() <= i < v@.len() ==> lay_of(items[i - t0.len()], #[trigger] v@[i])
    &&& st.head == list_pos(st0.format, items, items.len(), st0.head + lb.len(), Seq::empty()) + rb.len()
}
/// after the opening bracket (and no spaces: the first item stands right there) the loop's hypothesis holds
pub proof fn lemma_set_entry(st0: &ParseState<'_, &str>, st: &ParseState<'_, &str>, items: Seq<Lay>, lb: Seq<char>, rb: Seq<char>)
    requires set_hyp(st0, items, lb, rb), st.same_but_head(st0), st.head == st0.after_spaces(st0.head + lb.len()),
    ensures list_hyp(st, items, rb, Seq::empty()), st.head == st0.head + lb.len(),
{
    let f = st0.format; let e = st0.env@; let x0 = st0.head + lb.len();
    assert(skip_end(f, e, x0) == x0);
    if kw_at(e, x0, f.space.parse@) { lemma_skip_end_ge(f, e, x0 + f.space.parse@.len()); }
    assert(!kw_at(e, x0, f.space.parse@));
}
pub proof fn lemma_skip_end_ge(f: &NarseseFormat<&str>, e: Seq<char>, x: int)
    ensures skip_end(f, e, x) >= x
    decreases e.len() - x
{
    let sp = f.space.parse@; let sep = f.compound.separator@;
    if sp.len() > 0 && kw_at(e, x, sp) { lemma_skip_end_ge(f, e, x + sp.len()); }
    else if sep.len() > 0 && kw_at(e, x, sep) { lemma_skip_end_ge(f, e, x + sep.len()); }
}
pub proof fn lemma_list_pos_join(f: &NarseseFormat<&str>, items: Seq<Lay>, n: nat, x0: int, g0: Seq<char>)
    requires n <= items.len()
    ensures list_pos(f, items, n, x0, g0) == x0 + (if n == 0 { 0int } else { (g0.len() + lay_join(f, items, n).len()) as int })
    decreases n
{
    if n == 1 {
        assert(list_pos(f, items, 0, x0, g0) == x0);
        assert(lay_join(f, items, 1) == lay_text(f, items[0]));
    } else if n > 1 {
        lemma_list_pos_join(f, items, (n - 1) as nat, x0, g0);
        let a = lay_join(f, items, (n - 1) as nat);
        assert(lay_join(f, items, n) == a + lay_sep(f) + lay_text(f, items[n - 1]));
        assert((a + lay_sep(f) + lay_text(f, items[n - 1])).len() == a.len() + lay_sep(f).len() + lay_text(f, items[n - 1]).len());
        assert(list_pos(f, items, n, x0, g0) == list_pos(f, items, (n - 1) as nat, x0, g0) + lay_sep(f).len() + lay_text(f, items[n - 1]).len());
    }
}
/// the set about to be built from the parsed terms has the layout, and the cursor is at its end
pub open spec fn set_built(st0: &ParseState<'_, &str>, st: &ParseState<'_, &str>, l: Lay, terms: Seq<Term>) -> bool {
    &&& l is Set
    &&& st.head == st0.head + lay_text(st0.format, l).len()
    &&& forall|t: Term| is_set_like(t) && set_of(t) == terms.to_set() && (if l->Set_ext { t is SetExtension } else { t is SetIntension }) ==> #[trigger] lay_of(l, t)
}
pub proof fn lemma_set_exit(st0: &ParseState<'_, &str>, st: &ParseState<'_, &str>, l: Lay, terms: Seq<Term>)
    requires
        e_hyp(st0, l), l is Set,
        terms.len() == l->Set_items.len(),
        forall|i: int| 0 <= i < terms.len() ==> lay_of(l->Set_items[i], #[trigger] terms[i]),
        st.head == list_pos(st0.format, l->Set_items, l->Set_items.len(), st0.head + set_open(st0.format, l->Set_ext).len(), Seq::empty()) + set_close(st0.format, l->Set_ext).len(),
    ensures set_built(st0, st, l, terms)
{
    let f = st0.format; let items = l->Set_items; let ext = l->Set_ext;
    lemma_list_pos_join(f, items, items.len(), st0.head + set_open(f, ext).len(), Seq::empty());
    assert(lay_ok(f, st0.env@, l, st0.head as int));
    assert(lay_oitems(items, terms));
    assert forall|t: Term| is_set_like(t) && set_of(t) == terms.to_set() && (if ext { t is SetExtension } else { t is SetIntension }) implies #[trigger] lay_of(l, t) by {
        assert(terms.to_set() == set_of(t) && lay_oitems(items, terms));
        assert(lay_uitems(items, t));
    }
}

// ---- compounds: bracket, connecter, items, bracket (parse_compound) ----
/// one of the twelve connecters stands at the cursor
pub open spec fn connecter_here(st: &ParseState<'_, &str>) -> bool {
    let c = st.format.compound;
    st.at_head(c.connecter_conjunction@) || st.at_head(c.connecter_disjunction@) || st.at_head(c.connecter_negation@)
        || st.at_head(c.connecter_conjunction_sequential@) || st.at_head(c.connecter_conjunction_parallel@)
        || st.at_head(c.connecter_intersection_extension@) || st.at_head(c.connecter_intersection_intension@)
        || st.at_head(c.connecter_difference_extension@) || st.at_head(c.connecter_difference_intension@)
        || st.at_head(c.connecter_product@) || st.at_head(c.connecter_image_extension@) || st.at_head(c.connecter_image_intension@)
}
/// after the opening bracket: the cursor is on the layout's connecter, which is the first match
pub open spec fn compound_entry(st0: &ParseState<'_, &str>, st: &ParseState<'_, &str>, l: Lay) -> bool {
    &&& l is Compound
    &&& st.head == st0.head + st0.format.compound.brackets.0@.len()
    &&& !st.at_head(st.format.atom.prefix_operator@)
    &&& first_at(st, compound_try_order(st.format), l->Compound_k)
    &&& connecter_here(st)
}
pub proof fn lemma_compound_entry(st0: &ParseState<'_, &str>, st: &ParseState<'_, &str>, l: Lay)
    requires e_hyp(st0, l), l is Compound, st.same_but_head(st0), st0.wf(),
        st.head == st0.after_spaces(st0.head + st0.format.compound.brackets.0@.len()),
    ensures compound_entry(st0, st, l)
{
    let f = st0.format; let e = st0.env@; let k = l->Compound_k;
    let c = st0.head + f.compound.brackets.0@.len();
    assert(lay_ok(f, e, l, st0.head as int));
    assert(!kw_at(e, c, f.space.parse@));
    assert(st.head == c);
    assert(first_at_e(e, c, compound_try_order(f), k));
    assert(st.at_head(compound_try_order(f)[k]));
}
/// what the connecter arm initialised the term with
pub open spec fn compound_init(k: int, t: Term) -> bool {
    &&& compound_kind(k, t)
    &&& ((k == 0 || k == 1 || k == 4 || k == 5 || k == 6) ==> set_of(t) =~= Set::<Term>::empty())
    &&& ((k == 3 || k == 9) ==> ordered_components(t).len() == 0)
    &&& ((k == 10 || k == 11) ==> ordered_components(t).len() == 0)
}
/// after the component loop
pub open spec fn compound_mid(st0: &ParseState<'_, &str>, st: &ParseState<'_, &str>, l: Lay, term: Term, terms: Seq<Term>) -> bool {
    let f = st0.format; let k = l->Compound_k; let items = l->Compound_items;
    &&& l is Compound && 0 <= k < 12
    &&& compound_init(k, term)
    &&& lay_oitems(items, terms) && terms.len() > 0
    &&& (k == 2 ==> terms.len() == 1) && ((k == 7 || k == 8) ==> terms.len() == 2)
    &&& ((k == 10 || k == 11) ==> exists|i: int| #[trigger] is_first_placeholder(terms, i))
    &&& st.head + f.compound.brackets.1@.len() == st0.head + lay_text(f, l).len()
    &&& !kw_at(st0.env@, st.head as int, f.space.parse@)
}
/// a term with a layout that is not the placeholder atom's is not the placeholder
pub proof fn lemma_not_placeholder(l: Lay, t: Term)
    requires lay_of(l, t), !(l matches Lay::Atom { k, .. } && k == 0)
    ensures t != Term::Placeholder
{
}
pub proof fn lemma_compound_mid(st0: &ParseState<'_, &str>, at: &ParseState<'_, &str>, at2: &ParseState<'_, &str>, st: &ParseState<'_, &str>, l: Lay, term: Term, t0: Seq<Term>, terms: Seq<Term>)
    requires e_hyp(st0, l), l is Compound, compound_entry(st0, at, l), compound_init(l->Compound_k, term),
        t0.len() == 0,
        at2.head == at.head + compound_try_order(st0.format)[l->Compound_k].len(),
        list_done(at2, st.head as int, l->Compound_items, st0.format.compound.brackets.1@, lay_sep(st0.format), t0, terms),
        at.same_but_head(st0), at2.same_but_head(st0), st.same_but_head(st0),
    ensures compound_mid(st0, st, l, term, terms)
{
    let f = st0.format; let e = st0.env@; let k = l->Compound_k; let items = l->Compound_items;
    assert(lay_ok(f, e, l, st0.head as int));
    let c = st0.head + f.compound.brackets.0@.len();
    let x0 = c + compound_try_order(f)[k].len();
    lemma_list_pos_join(f, items, items.len(), x0, lay_sep(f));
    assert(lay_oitems(items, terms));
    if k == 10 || k == 11 {
        let i0 = choose|i: int| #[trigger] lay_first_ph(items, i);
        assert(lay_of(items[i0], terms[i0]));
        assert(terms[i0] == Term::Placeholder);
        assert forall|j: int| 0 <= j < i0 implies terms[j] != Term::Placeholder by {
            assert(lay_of(items[j], terms[j]));
            lemma_not_placeholder(items[j], terms[j]);
        }
        assert(is_first_placeholder(terms, i0));
    }
}
/// what the fill stage built from the parsed terms, kind by kind
pub open spec fn compound_filled(k: int, terms: Seq<Term>, t: Term) -> bool {
    if k == 2 { is_Negation(t, terms[0]) }
    else if k == 7 { is_DifferenceExtension(t, terms[0], terms[1]) }
    else if k == 8 { is_DifferenceIntension(t, terms[0], terms[1]) }
    else if k == 3 { t matches Term::ConjunctionSequential(v) && v@ =~= terms }
    else if k == 9 { t matches Term::Product(v) && v@ =~= terms }
    else if k == 10 { t matches Term::ImageExtension(i, v) && is_first_placeholder(terms, i as int) && v@ =~= terms.remove(i as int) }
    else if k == 11 { t matches Term::ImageIntension(i, v) && is_first_placeholder(terms, i as int) && v@ =~= terms.remove(i as int) }
    else { compound_kind(k, t) && set_of(t) =~= terms.to_set() }
}
pub proof fn lemma_compound_done(l: Lay, terms: Seq<Term>, t: Term)
    requires l is Compound, 0 <= l->Compound_k < 12, lay_oitems(l->Compound_items, terms), compound_filled(l->Compound_k, terms, t),
        (l->Compound_k == 2 ==> terms.len() == 1), ((l->Compound_k == 7 || l->Compound_k == 8) ==> terms.len() == 2),
    ensures lay_of(l, t)
{
    let k = l->Compound_k; let items = l->Compound_items;
    if k == 2 {
        assert(printed_components(t) =~= terms);
    } else if k == 7 || k == 8 {
        assert(printed_components(t) =~= terms);
    } else if k == 3 || k == 9 {
        assert(printed_components(t) =~= terms);
    } else if k == 10 || k == 11 {
        match t {
            Term::ImageExtension(i, v) | Term::ImageIntension(i, v) => {
                assert(terms[i as int] == Term::Placeholder);
                assert(terms.remove(i as int).insert(i as int, Term::Placeholder) =~= terms);
                assert(printed_components(t) =~= terms);
            },
            _ => {},
        }
    } else {
        assert(is_set_like(t));
        assert(terms.to_set() == set_of(t) && lay_oitems(items, terms));
        assert(lay_uitems(items, t));
    }
}

// ---- statements: bracket, subject, copula, predicate, bracket (parse_statement) ----
/// the copulas the formatter writes
pub open spec fn stmt_k_ok(k: int) -> bool { k == 0 || k == 1 || k == 2 || k == 3 || k == 7 || k == 8 || k == 9 || k == 10 || k == 11 }
/// marker for instantiating the predicate closure's contract (always true)
pub open spec fn pred_mark(l: Lay, h: int) -> bool { true }
/// one of the thirteen copulas stands at the cursor
pub open spec fn copula_here(st: &ParseState<'_, &str>) -> bool {
    exists|k: int| 0 <= k < 13 && st.at_head(#[trigger] copula_seq(st.format)[k])
}
/// positions inside the text of a statement layout standing at p
pub open spec fn stmt_pa(f: &NarseseFormat<&str>, p: int) -> int { p + f.statement.brackets.0@.len() }
pub open spec fn stmt_pc(f: &NarseseFormat<&str>, l: Lay, p: int) -> int { stmt_pa(f, p) + lay_text(f, *l->Stmt_l).len() + f.space.format_terms@.len() }
pub open spec fn stmt_pb(f: &NarseseFormat<&str>, l: Lay, p: int) -> int { stmt_pc(f, l, p) + copula_seq(f)[l->Stmt_k].len() + f.space.format_terms@.len() }
/// after the opening bracket: the cursor is on the subject
pub open spec fn stmt_entry(st0: &ParseState<'_, &str>, st: &ParseState<'_, &str>, l: Lay) -> bool {
    l is Stmt && st.head == stmt_pa(st0.format, st0.head as int) && e_hyp(st, *l->Stmt_l)
}
pub proof fn lemma_stmt_entry(st0: &ParseState<'_, &str>, st: &ParseState<'_, &str>, l: Lay)
    requires e_hyp(st0, l), l is Stmt, st.same_but_head(st0), st0.wf(),
        st.head == st0.after_spaces(st0.head + st0.format.statement.brackets.0@.len()),
    ensures stmt_entry(st0, st, l)
{
    let f = st0.format; let e = st0.env@;
    assert(lay_ok(f, e, l, st0.head as int));
    assert(!kw_at(e, stmt_pa(f, st0.head as int), f.space.parse@));
}
/// at the copula: it is the first match, and after it (and the spaces) stands the predicate
pub open spec fn stmt_at_copula(st0: &ParseState<'_, &str>, st: &ParseState<'_, &str>, l: Lay) -> bool {
    let f = st0.format; let e = st0.env@; let k = l->Stmt_k;
    &&& l is Stmt && stmt_k_ok(k)
    &&& st.head == stmt_pc(f, l, st0.head as int)
    &&& first_at(st, copula_seq(f), k)
    &&& copula_here(st)
    &&& pred_mark(*l->Stmt_r, st.head + copula_seq(f)[k].len())
    &&& spaces_end(e, f.space.parse@, st.head + copula_seq(f)[k].len()) == stmt_pb(f, l, st0.head as int)
    &&& lay_ok(f, e, *l->Stmt_r, stmt_pb(f, l, st0.head as int))
}
pub proof fn lemma_stmt_at_copula(st0: &ParseState<'_, &str>, st: &ParseState<'_, &str>, l: Lay)
    requires e_hyp(st0, l), l is Stmt, st.same_but_head(st0), st0.wf(),
        st.head == st0.after_spaces(stmt_pa(st0.format, st0.head as int) + lay_text(st0.format, *l->Stmt_l).len()),
    ensures stmt_at_copula(st0, st, l)
{
    let f = st0.format; let e = st0.env@; let k = l->Stmt_k;
    assert(lay_ok(f, e, l, st0.head as int));
    assert(first_at_e(e, stmt_pc(f, l, st0.head as int), copula_seq(f), k));
    assert(st.at_head(copula_seq(f)[k]));
}
/// the finished statement has the layout; the cursor is on the closing bracket, off the spaces
pub proof fn lemma_stmt_done(st0: &ParseState<'_, &str>, st: &ParseState<'_, &str>, l: Lay, t: Term, s: Term)
    requires e_hyp(st0, l), l is Stmt, lay_of(*l->Stmt_l, s), stmt_shape(l->Stmt_k, t, s), lay_of(*l->Stmt_r, ordered_components(t)[1]), stmt_k_ok(l->Stmt_k),
        st.head == stmt_pb(st0.format, l, st0.head as int) + lay_text(st0.format, *l->Stmt_r).len(),
        st.same_but_head(st0),
    ensures lay_of(l, t), !st.at_head(st0.format.space.parse@),
        st.head + st0.format.statement.brackets.1@.len() == st0.head + lay_text(st0.format, l).len(),
{
    let f = st0.format; let e = st0.env@;
    assert(lay_ok(f, e, l, st0.head as int));
}

// ---- the top-level entry (consume_one / build_mid_result / from_parse) ----
/// the cursor is on the text of layout l; nothing has been read yet, and the text does not start
/// with the space keyword or the opening budget bracket - those two are tried before a term is
pub open spec fn top_hyp(st: &ParseState<'_, &str>, l: Lay) -> bool {
    &&& e_hyp(st, l)
    &&& mid_empty(st.mid_result)
    &&& !st.at_head(st.format.space.parse@)
    &&& !st.at_head(st.format.task.budget_brackets.0@)
}
/// the term slot holds a term with layout l, nothing else is filled, the cursor is after the text
pub open spec fn top_mid(st: &ParseState<'_, &str>, st0: &ParseState<'_, &str>, l: Lay) -> bool {
    &&& st.mid_result.term matches Some(t) && lay_of(l, t)
    &&& st.mid_result.budget is None && st.mid_result.punctuation is None && st.mid_result.stamp is None && st.mid_result.truth is None
    &&& st.head == st0.head + lay_text(st0.format, l).len()
}
/// the k-th punctuation of the trial order stands at q; it is not mistaken for a space or an
/// opening budget bracket
pub open spec fn punct_at(f: &NarseseFormat<&str>, e: Seq<char>, q: int, k: int) -> bool {
    &&& 0 <= k < 4 && 0 <= q
    &&& first_at_e(e, q, punct_try_order(f), k)
    &&& punct_try_order(f)[k].len() > 0
    &&& !kw_at(e, q, f.space.parse@)
    &&& !kw_at(e, q, f.task.budget_brackets.0@)
}
/// consume_one with the term already read: only the punctuation can be next
pub open spec fn punct_hyp(st: &ParseState<'_, &str>, k: int) -> bool {
    &&& punct_at(st.format, st.env@, st.head as int, k)
    &&& st.mid_result.term is Some && st.mid_result.punctuation is None
    &&& st.mid_result.budget is None && st.mid_result.stamp is None && st.mid_result.truth is None
}
pub open spec fn punct_mid(st: &ParseState<'_, &str>, st0: &ParseState<'_, &str>, k: int) -> bool {
    &&& st.mid_result.punctuation matches Some(p) && punct_kind(k, p)
    &&& st.mid_result.term == st0.mid_result.term
    &&& st.mid_result.budget is None && st.mid_result.stamp is None && st.mid_result.truth is None
    &&& st.head == st0.head + punct_try_order(st0.format)[k].len()
}
/// whole-input hypothesis for "term punctuation" (a sentence without stamp and truth)
pub open spec fn sent_hyp(st: &ParseState<'_, &str>, l: Lay, k: int) -> bool {
    top_hyp(st, l) && punct_at(st.format, st.env@, st.head + lay_text(st.format, l).len(), k)
        && st.head + lay_text(st.format, l).len() + punct_try_order(st.format)[k].len() == st.env@.len()
}
/// term and punctuation read, the cursor right after the punctuation
pub open spec fn sent_done(st: &ParseState<'_, &str>, st0: &ParseState<'_, &str>, l: Lay, k: int) -> bool {
    &&& st.mid_result.term matches Some(t) && lay_of(l, t)
    &&& st.mid_result.punctuation matches Some(p) && punct_kind(k, p)
    &&& st.mid_result.budget is None && st.mid_result.stamp is None && st.mid_result.truth is None
    &&& st.head == st0.head + lay_text(st0.format, l).len() + punct_try_order(st0.format)[k].len()
}
/// the j-th entry of the stamp trial order (1 past, 2 present, 3 future) stands at q between the
/// stamp brackets and ends the input
pub open spec fn tense_at(f: &NarseseFormat<&str>, e: Seq<char>, q: int, j: int) -> bool {
    let b0 = f.sentence.stamp_brackets.0@; let b1 = f.sentence.stamp_brackets.1@;
    let q0 = q + b0.len(); let q1 = q0 + stamp_try_order(f)[j].len();
    &&& 1 <= j <= 3 && 0 <= q
    &&& kw_at(e, q, b0)
    &&& !kw_at(e, q0, f.space.parse@)
    &&& first_at_e(e, q0, stamp_try_order(f), j)
    &&& !kw_at(e, q1, f.space.parse@)
    &&& q1 + b1.len() == e.len()
    &&& q < e.len()
    &&& !kw_at(e, q, f.space.parse@)
    &&& !kw_at(e, q, f.task.budget_brackets.0@)
}
/// consume_one with term and punctuation read: only the stamp can be next
pub open spec fn stamp_hyp(st: &ParseState<'_, &str>, j: int) -> bool {
    &&& tense_at(st.format, st.env@, st.head as int, j)
    &&& st.mid_result.term is Some && st.mid_result.punctuation is Some
    &&& st.mid_result.budget is None && st.mid_result.stamp is None && st.mid_result.truth is None
}
pub open spec fn stamp_mid(st: &ParseState<'_, &str>, st0: &ParseState<'_, &str>, j: int) -> bool {
    &&& st.mid_result.stamp matches Some(s) && stamp_kind(j, s)
    &&& st.mid_result.term == st0.mid_result.term && st.mid_result.punctuation == st0.mid_result.punctuation
    &&& st.mid_result.budget is None && st.mid_result.truth is None
    &&& st.head == st0.env@.len()
}
/// whole-input hypothesis for "term punctuation space tense"
pub open spec fn sent3_hyp(st: &ParseState<'_, &str>, l: Lay, k: int, j: int) -> bool {
    let f = st.format; let e = st.env@;
    let p2 = st.head + lay_text(f, l).len() + punct_try_order(f)[k].len();
    let p3 = p2 + f.space.format_terms@.len();
    &&& top_hyp(st, l) && punct_at(f, e, st.head + lay_text(f, l).len(), k)
    // the spaces after the punctuation are exactly the term-level space the formatter wrote
    &&& spaces_end(e, f.space.parse@, p2) == p3
    &&& tense_at(f, e, p3, j)
}
pub open spec fn sent3_done(st: &ParseState<'_, &str>, st0: &ParseState<'_, &str>, l: Lay, k: int, j: int) -> bool {
    &&& st.mid_result.term matches Some(t) && lay_of(l, t)
    &&& st.mid_result.punctuation matches Some(p) && punct_kind(k, p)
    &&& st.mid_result.stamp matches Some(s) && stamp_kind(j, s)
    &&& st.mid_result.budget is None && st.mid_result.truth is None
    &&& st.head == st0.env@.len()
}
/// one of the four stamp keywords stands at the cursor
pub open spec fn stamp_kw_here(st: &ParseState<'_, &str>) -> bool {
    let n = st.format.sentence;
    st.at_head(n.stamp_fixed@) || st.at_head(n.stamp_past@) || st.at_head(n.stamp_present@) || st.at_head(n.stamp_future@)
}
