// ---- hand written specifications for unit enum_parser ----
pub type Narsese = NarseseValue<Term, Sentence, Task>;

/// A1 bound on the parse cursor: half the address space.  `head + n` for any string length n
/// (<= isize::MAX) then cannot overflow.
pub spec const HEAD_CAP: usize = usize::MAX / 2;

/// side conditions on a format that the parser needs in order to make progress; checked on the
/// three shipped constants by unit `tables`
pub open spec fn format_wf(f: &NarseseFormat<&str>) -> bool {
    &&& f.space.parse@.len() > 0
    &&& f.compound.brackets.0@.len() > 0
    &&& f.statement.brackets.0@.len() > 0
    &&& f.compound.brackets_set_extension.0@.len() > 0
    &&& f.compound.brackets_set_intension.0@.len() > 0
    &&& f.atom.prefix_placeholder@.len() > 0
    &&& f.compound.separator@.len() > 0
}

pub open spec fn kw_at(env: Seq<char>, i: int, kw: Seq<char>) -> bool {
    0 <= i && i + kw.len() <= env.len() && env.subrange(i, i + kw.len()) == kw
}

/// what nar_dev_utils' `[char]::starts_with_str` really computes on `env[i..]`: an empty keyword
/// always matches; otherwise the rest of the input must be non-empty and agree with the keyword
/// on their common length - so a keyword that is CUT OFF by the end of input also "matches".
pub open spec fn lenient_kw_at(env: Seq<char>, i: int, kw: Seq<char>) -> bool {
    kw.len() == 0 || (0 <= i < env.len()
        && forall|j: int| 0 <= j < kw.len() && i + j < env.len() ==> env[i + j] == kw[j])
}

/// some copula of the format occurs (leniently) in `e` at position i
pub open spec fn copula_at_e(f: &NarseseFormat<&str>, e: Seq<char>, i: int) -> bool {
    exists|k: int| 0 <= k < 13 && lenient_kw_at(e, i, #[trigger] copula_seq(f)[k])
}
pub open spec fn spaces_end(env: Seq<char>, sp: Seq<char>, i: int) -> int
    decreases env.len() - i
{
    if sp.len() > 0 && kw_at(env, i, sp) { spaces_end(env, sp, i + sp.len()) } else { i }
}

pub open spec fn mid_empty(m: MidParseResult) -> bool {
    m.budget is None && m.term is None && m.punctuation is None && m.stamp is None && m.truth is None
}

/// number of still-empty slots: the outer component of the main loop's termination measure
pub open spec fn none_slots(m: MidParseResult) -> int {
    (if m.budget is None { 1int } else { 0 }) + (if m.term is None { 1int } else { 0 })
    + (if m.punctuation is None { 1int } else { 0 }) + (if m.stamp is None { 1int } else { 0 })
    + (if m.truth is None { 1int } else { 0 })
}

impl<'a> ParseState<'a, &'a str> {
    /// representation invariant of the parser state
    pub open spec fn wf(&self) -> bool {
        &&& self.len_env == self.env@.len()
        &&& self.head <= HEAD_CAP
        &&& format_wf(self.format)
    }
    /// remaining input, clipped at 0 (the cursor may legally run past the end)
    pub open spec fn rest(&self) -> int {
        if self.head < self.len_env { self.len_env - self.head } else { 0 }
    }
    /// everything except the cursor is unchanged
    pub open spec fn same_but_head(&self, o: &Self) -> bool {
        self.format == o.format && self.env == o.env && self.len_env == o.len_env && self.mid_result == o.mid_result
    }
    pub open spec fn same_input(&self, o: &Self) -> bool {
        self.format == o.format && self.env == o.env && self.len_env == o.len_env
    }
    /// some copula of the format occurs in the environment at position i
    pub open spec fn copula_at(&self, i: int) -> bool {
        copula_at_e(self.format, self.env@, i)
    }
    /// "maximal munch": an atom name ends only at the end of input, at a character that cannot
    /// be part of a name, or where a copula starts
    pub open spec fn name_ended(&self) -> bool {
        self.head >= self.len_env || self.copula_at(self.head as int)
            || !self.format.is_valid_atom_name.spec_call(self.env@[self.head as int])
    }
    /// `kw` occurs in the environment at the cursor
    pub open spec fn at_head(&self, kw: Seq<char>) -> bool {
        self.head + kw.len() <= self.env@.len()
            && self.env@.subrange(self.head as int, self.head + kw.len()) == kw
    }
    /// C09 reference: the position reached from `i` by skipping every occurrence of the space
    /// keyword that starts there (any number of them)
    pub open spec fn after_spaces(&self, i: int) -> int {
        spaces_end(self.env@, self.format.space.parse@, i)
    }
    /// the same state with the cursor at `h`
    pub open spec fn with_head(&self, h: int) -> Self {
        ParseState { head: h as usize, ..*self }
    }
    /// C09 mechanism: the cursor does not stand on the format's space keyword
    pub open spec fn no_space_here(&self) -> bool {
        !self.at_head(self.format.space.parse@)
    }
}

/// A2 (dependency): nar_dev_utils `ZeroOneFloat::is_in_01` for f64 is `(0.0..=1.0).contains(x)`;
/// the Kani unit `floats` proves that for every f64 bit pattern.  Here it *defines* the
/// uninterpreted range predicate used in the well-formedness specs.
#[verifier::external_trait_specification]
pub trait ExZeroOneFloat {
    type ExternalTraitSpecificationFor: ZeroOneFloat;
    fn is_in_01(&self) -> bool;
}
pub assume_specification[ <f64 as ZeroOneFloat>::is_in_01 ](x: &f64) -> (r: bool)
    ensures r == f64_in_01(*x);

// ---- frames over the five optional slots ----
pub open spec fn mid_eq_except_punctuation(a: MidParseResult, b: MidParseResult) -> bool {
    a.budget == b.budget && a.term == b.term && a.stamp == b.stamp && a.truth == b.truth
}
pub open spec fn mid_eq_except_stamp(a: MidParseResult, b: MidParseResult) -> bool {
    a.budget == b.budget && a.term == b.term && a.punctuation == b.punctuation && a.truth == b.truth
}
pub open spec fn mid_eq_except_truth(a: MidParseResult, b: MidParseResult) -> bool {
    a.budget == b.budget && a.term == b.term && a.punctuation == b.punctuation && a.stamp == b.stamp
}
pub open spec fn mid_eq_except_budget(a: MidParseResult, b: MidParseResult) -> bool {
    a.term == b.term && a.punctuation == b.punctuation && a.stamp == b.stamp && a.truth == b.truth
}
pub open spec fn mid_eq_except_term(a: MidParseResult, b: MidParseResult) -> bool {
    a.budget == b.budget && a.punctuation == b.punctuation && a.stamp == b.stamp && a.truth == b.truth
}

// (C12 well-formedness predicates and their induction lemmas: common/wf_specs.rs, raw-included before this file)
/// assumed in this unit, proved in unit `term_eq` (C06): comparing with the placeholder
pub assume_specification[ <Term as PartialEq>::eq ](a: &Term, b: &Term) -> (r: bool)
    ensures *b == Term::Placeholder ==> r == (*a == Term::Placeholder);

/// C12: everything stored in the slots is well-formed
pub open spec fn mid_wf(m: MidParseResult) -> bool {
    &&& (m.term matches Some(t) ==> parsed_wf(t))
    &&& (m.truth matches Some(t) ==> truth_wf(t))
    &&& (m.budget matches Some(b) ==> budget_wf(b))
}
/// slots are only ever filled, never overwritten or emptied, while consuming one input
pub open spec fn mid_extends(a: MidParseResult, b: MidParseResult) -> bool {
    &&& (a.budget is Some ==> b.budget == a.budget)
    &&& (a.term is Some ==> b.term == a.term)
    &&& (a.punctuation is Some ==> b.punctuation == a.punctuation)
    &&& (a.stamp is Some ==> b.stamp == a.stamp)
    &&& (a.truth is Some ==> b.truth == a.truth)
}
/// C12: well-formedness of a parse result
pub open spec fn narsese_wf(v: Narsese) -> bool {
    match v {
        NarseseValue::Term(t) => parsed_wf(t),
        NarseseValue::Sentence(s) => parsed_wf(sentence_term(s)) && sentence_truth_wf(s),
        NarseseValue::Task(t) => parsed_wf(sentence_term(t.0)) && sentence_truth_wf(t.0) && budget_wf(t.1),
    }
}
/// C15: the kind of the result is decided by which slots are filled
pub open spec fn classified(m: MidParseResult, r: ParseResult<Narsese>) -> bool {
    match (m.term, m.punctuation, m.budget) {
        (None, _, _) => r is Err,
        (Some(t), Some(p), Some(b)) => r matches Ok(NarseseValue::Task(k)) && k.1 == b
            && sentence_term(k.0) == t && sentence_punctuation(k.0) == p,
        (Some(t), Some(p), None) => r matches Ok(NarseseValue::Sentence(s))
            && sentence_term(s) == t && sentence_punctuation(s) == p
            // absent stamp / truth default to eternal / the empty truth
            && (m.stamp is None ==> sentence_stamp(s) == Stamp::Eternal) && (m.stamp matches Some(x) ==> sentence_stamp(s) == x)
            && (m.truth is None ==> sentence_truth_empty(s)),
        (Some(t), None, _) => r == Ok::<Narsese, ParseError>(NarseseValue::Term(t)),
    }
}

/// R5: `errs.join("\n\t")` (slice::join needs the unstable `Join` trait to be specified) is
/// replaced by this opaque helper; error text is outside every property.  Assumed not to panic.
#[verifier::external_body]
pub fn vx_join(errs: &Vec<String>) -> String { errs.join("\n\t") }

/// C08: "the state a fresh parser for (format, input) starts from".  Both the single-input path
/// (`ParseState::new` / `from_env`) and the multi-input path (`reset_to`) must establish it
/// before the common entry body runs; with A3 (a safe Rust function of its arguments) equal
/// start states give equal outcomes.
pub open spec fn is_fresh(st: &ParseState<'_, &str>, format: &NarseseFormat<&str>, input: Seq<char>) -> bool {
    &&& st.format == format
    &&& st.env@ == input
    &&& st.len_env == input.len()
    &&& st.head == 0
    &&& mid_empty(st.mid_result)
}

// ---- C03 / C10: which keyword selects which constructor in the ENUM PARSER ----------------
// The parser tries the keywords in a fixed order and takes the first that occurs at the cursor.
// `first_at(st, ks, k)`: keyword ks[k] occurs at the cursor and no earlier listed one does.
pub open spec fn first_at(st: &ParseState<'_, &str>, ks: Seq<Seq<char>>, k: int) -> bool {
    0 <= k < ks.len() && st.at_head(ks[k]) && forall|j: int| 0 <= j < k ==> !st.at_head(#[trigger] ks[j])
}
/// order in which parse_statement tries the copulas
pub open spec fn stmt_try_order(f: &NarseseFormat<&str>) -> Seq<Seq<char>> { copula_seq(f) }
/// C10: constructor (and operand placement) the property assigns to the k-th copula, for the
/// already parsed subject `s` (the predicate is whatever is parsed next)
pub open spec fn stmt_shape(k: int, t: Term, s: Term) -> bool {
    if k == 0 { t matches Term::Inheritance(a, _) && *a == s }
    else if k == 1 { t matches Term::Similarity(a, _) && *a == s }
    else if k == 2 { t matches Term::Implication(a, _) && *a == s }
    else if k == 3 { t matches Term::Equivalence(a, _) && *a == s }
    // instance: <S {-- P> is <{S} --> P>
    else if k == 4 { t matches Term::Inheritance(a, b) && (*a matches Term::SetExtension(x) && x@ == set![s]) && !(*b is SetIntension && false) }
    // property: <S --] P> is <S --> [P]>
    else if k == 5 { t matches Term::Inheritance(a, b) && *a == s && *b is SetIntension }
    // instance-property: <S {-] P> is <{S} --> [P]>
    else if k == 6 { t matches Term::Inheritance(a, b) && (*a matches Term::SetExtension(x) && x@ == set![s]) && *b is SetIntension }
    else if k == 7 { t matches Term::ImplicationPredictive(a, _) && *a == s }
    else if k == 8 { t matches Term::ImplicationConcurrent(a, _) && *a == s }
    else if k == 9 { t matches Term::ImplicationRetrospective(a, _) && *a == s }
    else if k == 10 { t matches Term::EquivalencePredictive(a, _) && *a == s }
    else if k == 11 { t matches Term::EquivalenceConcurrent(a, _) && *a == s }
    // retrospective equivalence: predictive equivalence with the operands swapped
    else { t matches Term::EquivalencePredictive(_, b) && *b == s }
}
pub open spec fn punct_try_order(f: &NarseseFormat<&str>) -> Seq<Seq<char>> {
    seq![f.sentence.punctuation_judgement@, f.sentence.punctuation_goal@, f.sentence.punctuation_question@, f.sentence.punctuation_quest@]
}
pub open spec fn punct_kind(k: int, p: Punctuation) -> bool {
    if k == 0 { p is Judgement } else if k == 1 { p is Goal } else if k == 2 { p is Question } else { p is Quest }
}
pub open spec fn stamp_try_order(f: &NarseseFormat<&str>) -> Seq<Seq<char>> {
    seq![f.sentence.stamp_fixed@, f.sentence.stamp_past@, f.sentence.stamp_present@, f.sentence.stamp_future@]
}
pub open spec fn stamp_kind(k: int, s: Stamp) -> bool {
    if k == 0 { s is Fixed } else if k == 1 { s is Past } else if k == 2 { s is Present } else { s is Future }
}

/// nar_dev_utils' `[char]::starts_with_str` as a local trait of the same name (it shadows the glob
/// import; provided trait methods of a dependency cannot be specified directly): ASSUMED (A2) to
/// compute the lenient prefix test described at lenient_kw_at
pub trait StartsWithStr {
    spec fn vx_chars(&self) -> Seq<char>;
    fn starts_with_str(&self, needle: &str) -> (r: bool)
        ensures r == lenient_kw_at(self.vx_chars(), 0, needle@);
}
impl StartsWithStr for [char] {
    open spec fn vx_chars(&self) -> Seq<char> { self@ }
    #[verifier::external_body]
    fn starts_with_str(&self, needle: &str) -> (r: bool) { unimplemented!() }
}
/// R27: `<N keywords>.into_iter().any(closure)` -> this loop (verified): true iff the closure
/// - which decides the ghost predicate `p` - holds for one of them, tried in order.  (Generic in
/// the array length so that a change of the list's length is decided - by the caller's hint, which
/// wants the 13 copulas - instead of being rejected as a type error.)
pub fn vx_any13<'k, const N: usize, F: Fn(&'k str) -> bool>(arr: [&'k str; N], f: F, Ghost(p): Ghost<spec_fn(&'k str) -> bool>) -> (r: bool)
    requires
        forall|x: &'k str| call_requires(f, (x,)),
        forall|x: &'k str, b: bool| call_ensures(f, (x,), b) ==> b == p(x),
    ensures r == (exists|k: int| 0 <= k < N && p(#[trigger] arr@[k])),
{
    let mut i: usize = 0;
    while i < N
        invariant i <= N, arr@.len() == N, forall|x: &'k str| call_requires(f, (x,)),
            forall|x: &'k str, b: bool| call_ensures(f, (x,), b) ==> b == p(x),
            forall|k: int| 0 <= k < i ==> !p(#[trigger] arr@[k]),
        decreases N - i
    {
        if f(arr[i]) { return true; }
        i = i + 1;
    }
    false
}
/// the look-ahead on the suffix slice is the look-ahead at `start` of the whole environment
pub proof fn vx_copula_hint(st: &ParseState<'_, &str>, start: usize, arr: Seq<&str>, r: bool)
    requires
        start <= st.env@.len(), arr.len() == 13,
        forall|k: int| 0 <= k < 13 ==> (#[trigger] arr[k])@ == copula_seq(st.format)[k],
        r == (exists|k: int| 0 <= k < 13 && lenient_kw_at(st.env@.subrange(start as int, st.env@.len() as int), 0, (#[trigger] arr[k])@)),
    ensures r == st.copula_at(start as int)
{
    let cs = copula_seq(st.format);
    let sub = st.env@.subrange(start as int, st.env@.len() as int);
    assert forall|k: int| 0 <= k < 13 implies lenient_kw_at(sub, 0, #[trigger] cs[k]) == lenient_kw_at(st.env@, start as int, cs[k]) by {
        assert forall|j: int| 0 <= j < cs[k].len() && j < sub.len() implies sub[j] == st.env@[start + j] by {}
    }
    if r {
        let k = choose|k: int| 0 <= k < 13 && lenient_kw_at(sub, 0, (#[trigger] arr[k])@);
        assert(lenient_kw_at(st.env@, start as int, cs[k]));
    }
    if st.copula_at(start as int) {
        let k = choose|k: int| 0 <= k < 13 && lenient_kw_at(st.env@, start as int, #[trigger] cs[k]);
        assert(lenient_kw_at(sub, 0, arr[k]@));
    }
}

/// copula_at depends on the input and the format only
pub proof fn lemma_copula_at_same(a: &ParseState<'_, &str>, b: &ParseState<'_, &str>, i: int)
    requires a.same_input(b)
    ensures a.copula_at(i) == b.copula_at(i)
{
    if a.copula_at(i) {
        let k = choose|k: int| 0 <= k < 13 && lenient_kw_at(a.env@, i, #[trigger] copula_seq(a.format)[k]);
        assert(lenient_kw_at(b.env@, i, copula_seq(b.format)[k]));
    }
    if b.copula_at(i) {
        let k = choose|k: int| 0 <= k < 13 && lenient_kw_at(b.env@, i, #[trigger] copula_seq(b.format)[k]);
        assert(lenient_kw_at(a.env@, i, copula_seq(a.format)[k]));
    }
}

/// R30: opaque stand-ins for std adapters Verus has no model of (`Iterator::rposition`,
/// `Vec::retain`; neither is used on the pinned tree).  NOTHING is known about their results but a
/// bound, so whatever a property needs beyond that fails as an obligation - the function stays
/// inside the verifier's reach instead of leaving it.
#[verifier::external_body]
pub fn vx_opaque_index(len: usize) -> (r: Option<usize>)
    ensures r matches Some(i) ==> i < len
{ unimplemented!() }
#[verifier::external_body]
pub fn vx_opaque_shrink<T>(v: &mut Vec<T>)
    ensures final(v)@.len() <= old(v)@.len()
{ unimplemented!() }
