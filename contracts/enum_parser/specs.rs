// ---- hand written specifications for unit enum_parser ----
pub type Narsese = NarseseValue<Term, Sentence, Task>;

/// A1 bound on the parse cursor: half the address space.  `head + n` for any string length n
/// (<= isize::MAX) then cannot overflow.
pub spec const HEAD_CAP: usize = usize::MAX / 2;

/// A2: `str::chars().count()` is the number of chars; a str is at most isize::MAX bytes long
pub assume_specification<'a>[ <core::str::Chars<'a> as Iterator>::count ](it: core::str::Chars<'a>) -> (r: usize)
    ensures r == it.remaining().len(), r <= isize::MAX as usize;

/// side conditions on a format that the parser needs in order to make progress; checked on the
/// three shipped constants by unit `tables`
pub open spec fn format_wf(f: &NarseseFormat<&str>) -> bool {
    &&& f.space.parse@.len() > 0
    &&& f.compound.brackets.0@.len() > 0
    &&& f.statement.brackets.0@.len() > 0
    &&& f.compound.brackets_set_extension.0@.len() > 0
    &&& f.compound.brackets_set_intension.0@.len() > 0
    &&& f.atom.prefix_placeholder@.len() > 0
}

pub open spec fn mid_empty(m: MidParseResult) -> bool {
    m.budget is None && m.term is None && m.punctuation is None && m.stamp is None && m.truth is None
}

/// number of still-empty slots: the outer component of the main loop's termination measure
pub open spec fn none_slots(m: MidParseResult) -> int {
    (if m.budget is None { 1int } else { 0 }) + (if m.term is None { 1int } else { 0 })
    + (if m.punctuation is None { 1int } else { 0 }) + (if m.stamp is None { 1int } else { 0 })
    + (if m.truth is None { 1int } else { 0 })
}

impl<'a> ParseState<'a, &'a str> {
    /// representation invariant of the parser state
    pub open spec fn wf(&self) -> bool {
        &&& self.len_env == self.env@.len()
        &&& self.head <= HEAD_CAP
        &&& format_wf(self.format)
    }
    /// remaining input, clipped at 0 (the cursor may legally run past the end)
    pub open spec fn rest(&self) -> int {
        if self.head < self.len_env { self.len_env - self.head } else { 0 }
    }
    /// everything except the cursor is unchanged
    pub open spec fn same_but_head(&self, o: &Self) -> bool {
        self.format == o.format && self.env == o.env && self.len_env == o.len_env && self.mid_result == o.mid_result
    }
    pub open spec fn same_input(&self, o: &Self) -> bool {
        self.format == o.format && self.env == o.env && self.len_env == o.len_env
    }
    /// `kw` occurs in the environment at the cursor
    pub open spec fn at_head(&self, kw: Seq<char>) -> bool {
        self.head + kw.len() <= self.env@.len()
            && self.env@.subrange(self.head as int, self.head + kw.len()) == kw
    }
}
