/// vacuity guards for the C01 hypotheses (parser side): none of them may be contradictory - the
/// solver must NOT be able to derive false from them, kind by kind
pub proof fn vx_canary_e_hyp_atom(st: &ParseState<'_, &str>, l: Lay)
    requires st.wf(), e_hyp(st, l), l is Atom, l->Atom_k == 6
{
    assert(false); // must fail (C01 atom hypothesis)
}
pub proof fn vx_canary_e_hyp_set(st: &ParseState<'_, &str>, l: Lay)
    requires st.wf(), e_hyp(st, l), l is Set, l->Set_items.len() == 2, l->Set_items[1] is Compound
{
    reveal_with_fuel(lay_ok, 3); reveal_with_fuel(list_ok, 4);
    assert(false); // must fail (C01 set hypothesis)
}
pub proof fn vx_canary_e_hyp_compound(st: &ParseState<'_, &str>, l: Lay)
    requires st.wf(), e_hyp(st, l), l is Compound, l->Compound_k == 10, l->Compound_items.len() == 3, l->Compound_items[0] is Stmt
{
    reveal_with_fuel(lay_ok, 3); reveal_with_fuel(list_ok, 4);
    assert(false); // must fail (C01 compound hypothesis)
}
pub proof fn vx_canary_e_hyp_stmt(st: &ParseState<'_, &str>, l: Lay)
    requires st.wf(), e_hyp(st, l), l is Stmt, l->Stmt_k == 9, *l->Stmt_l is Atom, *l->Stmt_r is Set
{
    reveal_with_fuel(lay_ok, 3); reveal_with_fuel(list_ok, 4);
    assert(false); // must fail (C01 statement hypothesis)
}
pub proof fn vx_canary_list_cases(st0: &ParseState<'_, &str>, st: &ParseState<'_, &str>, items: Seq<Lay>, rb: Seq<char>, g0: Seq<char>, t0: Seq<Term>, t: Seq<Term>)
    requires st0.wf(), list_hyp(st0, items, rb, g0), st.same_but_head(st0), list_inv(st0, st.head as int, items, g0, t0, t), items.len() == 2, t.len() == t0.len() + 1,
{
    lemma_list_cases(st0, st, items, rb, g0, t0, t);
    assert(false); // must fail (C01 list hypothesis)
}
