// ---- C07: what `Hash for Term` feeds into a hasher ----
/// the byte chunks a hasher has been fed (vstd models `DefaultHasher` by exactly this view)
pub uninterp spec fn hlog<H>(h: H) -> Seq<Seq<u8>>;
#[verifier::external_body]
pub broadcast proof fn axiom_hlog_default(h: DefaultHasher)
    ensures #[trigger] hlog(h) == h@
{}
/// what hashing a value of type T feeds (std types: assumed functions of the value, A2; for Term
/// it names the result of the recursive call, as `teq` does for `==`)
pub uninterp spec fn hfeed<T: ?Sized>(t: &T) -> Seq<Seq<u8>>;
pub uninterp spec fn u64_bytes(x: u64) -> Seq<u8>;
pub uninterp spec fn usize_bytes(x: usize) -> Seq<u8>;

pub assume_specification<H: std::hash::Hasher>[ <String as Hash>::hash::<H> ](s: &String, state: &mut H)
    ensures hlog(*final(state)) == hlog(*old(state)) + hfeed::<String>(s);
pub assume_specification<H: std::hash::Hasher>[ <str as Hash>::hash::<H> ](s: &str, state: &mut H)
    ensures hlog(*final(state)) == hlog(*old(state)) + hfeed::<str>(s);
pub assume_specification<H: std::hash::Hasher>[ <usize as Hash>::hash::<H> ](s: &usize, state: &mut H)
    ensures hlog(*final(state)) == hlog(*old(state)) + hfeed::<usize>(s);
pub assume_specification<T: ?Sized + Hash, A: std::alloc::Allocator, H: std::hash::Hasher>[ <Box<T, A> as Hash>::hash::<H> ](b: &Box<T, A>, state: &mut H)
    ensures hlog(*final(state)) == hlog(*old(state)) + hfeed::<T>(&**b);
/// the recursive call `Term::hash` (external impl here; its body is verified below as vx_term_hash)
pub assume_specification<H: std::hash::Hasher>[ <Term as Hash>::hash::<H> ](t: &Term, state: &mut H)
    ensures hlog(*final(state)) == hlog(*old(state)) + hfeed::<Term>(t);

/// A2 (dependency stub): `Hasher::write_u64 / write_usize` are provided trait methods (no
/// assume_specification possible); this local trait is the only one in scope for them.
pub trait VxHasherWrites {
    fn write_u64(&mut self, i: u64);
    fn write_usize(&mut self, i: usize);
}
impl VxHasherWrites for DefaultHasher {
    #[verifier::external_body]
    fn write_u64(&mut self, i: u64)
        ensures final(self)@ == old(self)@.push(u64_bytes(i))
    { std::hash::Hasher::write_u64(self, i) }
    #[verifier::external_body]
    fn write_usize(&mut self, i: usize)
        ensures final(self)@ == old(self)@.push(usize_bytes(i))
    { std::hash::Hasher::write_usize(self, i) }
}

pub open spec fn wadd(a: u64, b: u64) -> u64 {
    if a + b > u64::MAX { (a + b - 0x1_0000_0000_0000_0000) as u64 } else { (a + b) as u64 }
}
/// the order-independent digest of one component: a fresh fixed-key hasher fed with the term
pub open spec fn digest(t: Term) -> u64 {
    <DefaultHasher as vstd::std_specs::hash::DefaultHasherAdditionalSpecFns>::spec_finish(hfeed::<Term>(&t))
}
/// sum (mod 2^64) of the digests along a sequence
pub open spec fn seq_sum(q: Seq<&Term>) -> u64
    decreases q.len()
{
    if q.len() == 0 { 0 } else { wadd(seq_sum(q.drop_last()), digest(*q.last())) }
}
/// sum (mod 2^64) of the digests of the members of a finite set - a function of the SET
pub open spec fn set_sum(s: Set<Term>) -> u64
    decreases s.len()
{
    if s.len() == 0 { 0 } else { let e = s.choose(); wadd(set_sum(s.remove(e)), digest(e)) }
}
pub proof fn lemma_wadd_comm_assoc(a: u64, b: u64, c: u64)
    ensures wadd(a, b) == wadd(b, a), wadd(wadd(a, b), c) == wadd(wadd(a, c), b)
{}
/// any member can be taken out first
pub proof fn lemma_set_sum_remove(s: Set<Term>, e0: Term)
    requires s.contains(e0)
    ensures set_sum(s) == wadd(set_sum(s.remove(e0)), digest(e0))
    decreases s.len()
{
    let e = s.choose();
    if s.len() == 0 {
        s.lemma_len0_is_empty();
    } else if e == e0 {
    } else {
        // s = {e, e0} + rest
        lemma_set_sum_remove(s.remove(e), e0);
        assert(s.remove(e0).contains(e));
        lemma_set_sum_remove(s.remove(e0), e);
        assert(s.remove(e).remove(e0) =~= s.remove(e0).remove(e));
        lemma_wadd_comm_assoc(set_sum(s.remove(e).remove(e0)), digest(e0), digest(e));
    }
}
/// summing along ANY duplicate-free enumeration of the set gives the set's sum
pub proof fn lemma_seq_sum_is_set_sum(q: Seq<&Term>, s: Set<Term>)
    requires
        q.no_duplicates(),
        q.len() == s.len(),
        forall|x: Term| #[trigger] s.contains(x) ==> q.contains(&x),
    ensures seq_sum(q) == set_sum(s)
    decreases q.len()
{
    if q.len() == 0 {
        if s.len() != 0 { assert(false); }
    } else {
        let last = *q.last();
        let q0 = q.drop_last();
        // last is a member of s: otherwise the s.len() members would fit into q0 (pigeonhole)
        let r = deref_seq(q);
        assert forall|i: int, j: int| 0 <= i < r.len() && 0 <= j < r.len() && i != j implies r[i] != r[j] by { assert(q[i] != q[j]); }
        assert forall|x: Term| #[trigger] s.contains(x) implies r.contains(x) by {
            assert(q.contains(&x));
            let i = choose|i: int| 0 <= i < q.len() && q[i] == &x;
            assert(r[i] == x);
        }
        lemma_enumeration_of_set(r, s);
        assert(r.to_set().contains(r[r.len() - 1]));
        assert(s.contains(last));
        let s0 = s.remove(last);
        assert(q0.no_duplicates());
        assert forall|x: Term| #[trigger] s0.contains(x) implies q0.contains(&x) by {
            assert(q.contains(&x));
            let i = choose|i: int| 0 <= i < q.len() && q[i] == &x;
            assert(i != q.len() - 1);
            assert(q0[i] == &x);
        }
        lemma_seq_sum_is_set_sum(q0, s0);
        lemma_set_sum_remove(s, last);
    }
}

/// concatenated feeds of an ordered component list
pub open spec fn seq_feed(v: Seq<Term>) -> Seq<Seq<u8>>
    decreases v.len()
{
    if v.len() == 0 { Seq::empty() } else { seq_feed(v.drop_last()) + hfeed::<Term>(&v.last()) }
}
pub open spec fn set_feed(s: Set<Term>) -> Seq<Seq<u8>> {
    seq![usize_bytes(s.len() as usize), u64_bytes(set_sum(s))]
}
pub open spec fn pair_feed(a: Term, b: Term) -> Seq<Seq<u8>> {
    seq![u64_bytes(wadd(digest(a), digest(b)))]
}
/// C07: what hashing a term feeds.  Everything `==` ignores is absent from it: unordered
/// containers contribute a function of their member SET, symmetric statements a symmetric
/// function of their operands; ordered parts are fed in order (nested terms by Term::hash again).
pub open spec fn feed_rule(t: Term) -> Seq<Seq<u8>> {
    match t {
        Term::Word(n) | Term::VariableIndependent(n) | Term::VariableDependent(n) | Term::VariableQuery(n)
        | Term::Operator(n) => hfeed::<String>(&n),
        Term::Placeholder => hfeed::<str>("_"),
        Term::Interval(i) => hfeed::<usize>(&i),
        Term::SetExtension(s) | Term::SetIntension(s) | Term::IntersectionExtension(s) | Term::IntersectionIntension(s)
        | Term::Conjunction(s) | Term::Disjunction(s) | Term::ConjunctionParallel(s) => set_feed(s@),
        Term::DifferenceExtension(a, b) | Term::DifferenceIntension(a, b) | Term::Inheritance(a, b) | Term::Implication(a, b)
        | Term::ImplicationPredictive(a, b) | Term::ImplicationConcurrent(a, b) | Term::ImplicationRetrospective(a, b)
        | Term::EquivalencePredictive(a, b) => hfeed::<Term>(&*a) + hfeed::<Term>(&*b),
        Term::Product(v) | Term::ConjunctionSequential(v) => seq_feed(v@),
        Term::ImageExtension(i, v) | Term::ImageIntension(i, v) => hfeed::<usize>(&i) + seq_feed(v@),
        Term::Negation(a) => hfeed::<Term>(&*a),
        Term::Similarity(a, b) | Term::Equivalence(a, b) | Term::EquivalenceConcurrent(a, b) => pair_feed(*a, *b),
    }
}
/// swapping the operands of a symmetric statement does not change what is fed
pub proof fn lemma_pair_feed_symmetric(a: Term, b: Term)
    ensures pair_feed(a, b) == pair_feed(b, a)
{
    lemma_wadd_comm_assoc(digest(a), digest(b), 0);
}

/// A2: a hash set's capacity is at least its length (and otherwise unrelated to its contents)
pub assume_specification<T, S, A: std::alloc::Allocator>[ HashSet::<T, S, A>::capacity ](s: &HashSet<T, S, A>) -> (r: usize)
    ensures r >= s@.len();
/// A2: `u64::rotate_left` / `rotate_right` are total functions of their arguments (not used on the
/// pinned tree; stated so that a change that starts to mix digests with them stays decidable)
pub uninterp spec fn rotl64(x: u64, n: u32) -> u64;
pub uninterp spec fn rotr64(x: u64, n: u32) -> u64;
pub assume_specification[ u64::rotate_left ](x: u64, n: u32) -> (r: u64) ensures r == rotl64(x, n);
pub assume_specification[ u64::rotate_right ](x: u64, n: u32) -> (r: u64) ensures r == rotr64(x, n);
