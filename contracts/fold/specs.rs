// ---- hand written specifications for unit fold ----
/// R5: error text is outside every property; the repository's `FoldError` (a String built by
/// `format!` / `to_string`) is replaced by an opaque error value.
pub struct FoldError(pub u8);
pub type FoldResult<T> = Result<T, FoldError>;
macro_rules! FoldError {
    ($($content:tt)*) => { FoldError(0) };
}
// R5 (continued): the blanket `impl<T: ToString> From<T> for FoldError` becomes one opaque
// conversion per error type that actually reaches it
impl vstd::std_specs::convert::FromSpecImpl<std::num::ParseIntError> for FoldError { open spec fn obeys_from_spec() -> bool { false } open spec fn from_spec(v: std::num::ParseIntError) -> Self { FoldError(0) } }
impl From<std::num::ParseIntError> for FoldError { fn from(value: std::num::ParseIntError) -> Self { FoldError(0) } }
impl vstd::std_specs::convert::FromSpecImpl<std::num::ParseFloatError> for FoldError { open spec fn obeys_from_spec() -> bool { false } open spec fn from_spec(v: std::num::ParseFloatError) -> Self { FoldError(0) } }
impl From<std::num::ParseFloatError> for FoldError { fn from(value: std::num::ParseFloatError) -> Self { FoldError(0) } }
impl vstd::std_specs::convert::FromSpecImpl<String> for FoldError { open spec fn obeys_from_spec() -> bool { false } open spec fn from_spec(v: String) -> Self { FoldError(0) } }
impl From<String> for FoldError { fn from(value: String) -> Self { FoldError(0) } }

/// A2 (dependency stub): nar_dev_utils::ResultBoost::transform_err is a *provided* trait method,
/// for which Verus cannot take an assume_specification.  This local trait shadows the glob
/// import and carries the assumed contract: the error is mapped, an Ok value is kept, and the
/// error converters used here (`FoldError::from` = `to_string`) do not panic.
pub trait ResultBoost<T, E> {
    fn transform_err<E2, F: FnMut(E) -> E2>(self, transformer: F) -> (out: Result<T, E2>);
}
impl<T, E> ResultBoost<T, E> for Result<T, E> {
    #[verifier::external_body]
    fn transform_err<E2, F: FnMut(E) -> E2>(self, transformer: F) -> (out: Result<T, E2>)
        ensures
            self matches Ok(v) ==> out == Ok::<T, E2>(v),
            self is Err ==> out is Err,
    {
        self.map_err(transformer)
    }
}

/// core's reflexive `impl<T> From<T> for T`
pub assume_specification<T>[ <T as From<T>>::from ](t: T) -> (r: T)
    ensures r == t;


/// Cross-unit assumption: the enum parser's stand-alone entry points (`parse::<Stamp>`,
/// `parse::<Punctuation>`) return without panicking for every input.  That is exactly what unit
/// `enum_parser` proves (C04); here only the signature is needed.
pub struct ParseError(pub u8);
impl From<ParseError> for FoldError { fn from(value: ParseError) -> Self { FoldError(0) } }
impl vstd::std_specs::convert::FromSpecImpl<ParseError> for FoldError { open spec fn obeys_from_spec() -> bool { false } open spec fn from_spec(v: ParseError) -> Self { FoldError(0) } }
impl EnumNarseseFormat<&str> {
    #[verifier::external_body]
    pub fn parse<To>(&self, input: &str) -> Result<To, ParseError> { unimplemented!() }
}
