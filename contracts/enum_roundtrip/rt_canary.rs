/// vacuity guard for the composed theorem's hypothesis (a statement between a compound and a set)
pub proof fn vx_canary_rt_ok(f: &NarseseFormat<&str>, l: Lay)
    requires format_wf(f), rt_ok(f, l), l is Stmt, *l->Stmt_l is Compound, *l->Stmt_r is Set
{
    assert(false); // must fail (C01 hypothesis)
}
/// ... and for the sentence-level hypothesis (a goal on a compound)
pub proof fn vx_canary_rt_sent_ok(f: &NarseseFormat<&str>, l: Lay)
    requires format_wf(f), rt_sent_ok(f, l, 1), l is Compound
{
    assert(false); // must fail (C01 sentence hypothesis)
}
/// ... and for a question on a statement with the present tense
pub proof fn vx_canary_rt_sent3_ok(f: &NarseseFormat<&str>, l: Lay)
    requires format_wf(f), rt_sent3_ok(f, l, 2, 2), l is Stmt
{
    assert(false); // must fail (C01 tense hypothesis)
}
