/// vacuity guard for the composed theorem's hypothesis (a statement between a compound and a set)
pub proof fn vx_canary_rt_ok(f: &NarseseFormat<&str>, l: Lay)
    requires format_wf(f), rt_ok(f, l), l is Stmt, *l->Stmt_l is Compound, *l->Stmt_r is Set
{
    assert(false); // must fail (C01 hypothesis)
}
