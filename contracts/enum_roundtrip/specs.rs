// ---- hand written: C01, the composition.  The enum formatter's contract ("the text is the
// text of SOME layout of the term", unit formatter) and the enum parser's ("from the text of a
// readable layout the parser builds a term with that layout", unit enum_parser) are used together
// on the REAL entry points: the formatted string is handed to the parser and the result is
// compared with the original - for every term and every format that satisfy the hypotheses. ----

/// vocabulary hypothesis for one layout: written alone as a whole input, its text is readable
/// (common/.. enum_parser/rt_specs.rs: lay_ok) and does not start with the space keyword or the
/// opening budget bracket (the two things the top-level dispatcher tries before a term)
pub open spec fn rt_ok(f: &NarseseFormat<&str>, l: Lay) -> bool {
    let e = lay_text(f, l);
    lay_ok(f, e, l, 0) && !kw_at(e, 0, f.space.parse@) && !kw_at(e, 0, f.task.budget_brackets.0@)
}
/// C01 at the term level: format, then parse the string with the parser's entry sequence
/// (`NarseseFormat::parse` = build_parse_state + the Narsese `from_parse`): the result is a Term
/// value with the same layout as the original - same constructors, ordered components, unordered
/// component sets, placeholder position at every depth
pub fn vx_roundtrip_term(f: &NarseseFormat<&str>, term: &Term) -> (r: Result<Narsese, ParseError>)
    requires
        format_wf(f),
        // every way of writing the term down (any listing order of its unordered components)
        // is readable in this vocabulary
        forall|l: Lay| lay_of(l, *term) ==> #[trigger] rt_ok(f, l),
    ensures
        r matches Ok(NarseseValue::Term(t2)) && same_layout(*term, t2),
{
    let s = f.format_term(term);
    let ghost l = choose|l: Lay| #[trigger] lay_of(l, *term) && lay_text(f, l) == s@;
    let mut st = f.build_parse_state(&s);
    proof {
        assert(fmt(f, *term, s@));
        assert(lay_of(l, *term) && lay_text(f, l) == s@);
        assert(rt_ok(f, l));
        assert(st.env@ == s@);
        assert(e_hyp(&st, l));
        assert(top_hyp(&st, l));
    }
    let r = from_parse_narsese((), &mut st);
    proof {
        assert(r matches Ok(NarseseValue::Term(t2)) && lay_of(l, *term) && lay_of(l, t2));
    }
    r
}
