// ---- hand written: C01, the composition.  The enum formatter's contract ("the text is the
// text of SOME layout of the term", unit formatter) and the enum parser's ("from the text of a
// readable layout the parser builds a term with that layout", unit enum_parser) are used together
// on the REAL entry points: the formatted string is handed to the parser and the result is
// compared with the original - for every term and every format that satisfy the hypotheses. ----

/// vocabulary hypothesis for one layout: written alone as a whole input, its text is readable
/// (common/.. enum_parser/rt_specs.rs: lay_ok) and does not start with the space keyword or the
/// opening budget bracket (the two things the top-level dispatcher tries before a term)
pub open spec fn rt_ok(f: &NarseseFormat<&str>, l: Lay) -> bool {
    let e = lay_text(f, l);
    lay_ok(f, e, l, 0) && !kw_at(e, 0, f.space.parse@) && !kw_at(e, 0, f.task.budget_brackets.0@)
}
/// C01 at the term level: format, then parse the string with the parser's entry sequence
/// (`NarseseFormat::parse` = build_parse_state + the Narsese `from_parse`): the result is a Term
/// value with the same layout as the original - same constructors, ordered components, unordered
/// component sets, placeholder position at every depth
#[verifier::rlimit(300)]
pub fn vx_roundtrip_term(f: &NarseseFormat<&str>, term: &Term) -> (r: Result<Narsese, ParseError>)
    requires
        format_wf(f),
        // every way of writing the term down (any listing order of its unordered components)
        // is readable in this vocabulary
        forall|l: Lay| lay_of(l, *term) ==> #[trigger] rt_ok(f, l),
    ensures
        r matches Ok(NarseseValue::Term(t2)) && same_layout(*term, t2),
{
    let s = f.format_term(term);
    let ghost l = choose|l: Lay| #[trigger] lay_of(l, *term) && lay_text(f, l) == s@;
    let mut st = f.build_parse_state(&s);
    proof {
        assert(fmt(f, *term, s@));
        assert(lay_of(l, *term) && lay_text(f, l) == s@);
        assert(rt_ok(f, l));
        assert(st.env@ == s@);
        assert(e_hyp(&st, l));
        assert(top_hyp(&st, l));
    }
    let r = from_parse_narsese((), &mut st);
    proof {
        assert(r matches Ok(NarseseValue::Term(t2)) && lay_of(l, *term) && lay_of(l, t2));
    }
    r
}

/// index of a punctuation in the parser's trial order
pub open spec fn punct_index(p: Punctuation) -> int {
    match p { Punctuation::Judgement => 0, Punctuation::Goal => 1, Punctuation::Question => 2, Punctuation::Quest => 3 }
}
/// vocabulary hypothesis for "term punctuation" written alone as a whole input
pub open spec fn rt_sent_ok(f: &NarseseFormat<&str>, l: Lay, k: int) -> bool {
    let e = lay_text(f, l) + punct_try_order(f)[k];
    lay_ok(f, e, l, 0) && !kw_at(e, 0, f.space.parse@) && !kw_at(e, 0, f.task.budget_brackets.0@)
        && punct_at(f, e, lay_text(f, l).len() as int, k)
}
/// C01 for sentences WITHOUT stamp and truth (eternal; the empty truth or none - every question
/// and quest as the NARS grammar writes them, and truth-less judgements / goals): format, then parse
/// with the parser's entry sequence: the result is a Sentence whose term has the same layout, with
/// the same punctuation, eternal, without truth
#[verifier::rlimit(300)]
pub fn vx_roundtrip_sentence(f: &NarseseFormat<&str>, s: &Sentence) -> (r: Result<Narsese, ParseError>)
    requires
        format_wf(f),
        sentence_stamp(*s) == Stamp::Eternal, sentence_truth_empty(*s),
        forall|l: Lay| lay_of(l, sentence_term(*s)) ==> #[trigger] rt_sent_ok(f, l, punct_index(sentence_punctuation(*s))),
    ensures
        r matches Ok(NarseseValue::Sentence(s2)) && same_layout(sentence_term(*s), sentence_term(s2))
            && sentence_punctuation(s2) == sentence_punctuation(*s)
            && sentence_stamp(s2) == Stamp::Eternal && sentence_truth_empty(s2),
{
    let text = f.format_sentence(s);
    let ghost k = punct_index(sentence_punctuation(*s));
    let ghost (a, c, d) = choose|a: Seq<char>, c: Seq<char>, d: Seq<char>|
        text@ == Seq::<char>::empty() + #[trigger] sentence_layout(a, punct_kw(f, sentence_punctuation(*s)), c, d, f.space.format_terms@)
        && term_out(f, sentence_term(*s), Seq::empty(), a)
        && stamp_out(f, sentence_stamp(*s), Seq::empty(), c)
        && truth_out(f, match sentence_truth(*s) { Some(t) => t, None => Truth::Empty }, Seq::empty(), d);
    proof {
        lemma_fmt_intro(f, sentence_term(*s), a);
    }
    let ghost l = choose|l: Lay| #[trigger] lay_of(l, sentence_term(*s)) && lay_text(f, l) == a;
    let mut st = f.build_parse_state(&text);
    proof {
        assert(c.len() == 0 && d.len() == 0);
        assert(punct_kw(f, sentence_punctuation(*s)) == punct_try_order(f)[k]);
        assert(text@ =~= lay_text(f, l) + punct_try_order(f)[k]);
        assert(rt_sent_ok(f, l, k));
        assert(e_hyp(&st, l));
        assert(sent_hyp(&st, l, k));
    }
    let r = from_parse_narsese((), &mut st);
    proof {
        assert(r matches Ok(NarseseValue::Sentence(s2)) && lay_of(l, sentence_term(*s)) && lay_of(l, sentence_term(s2)) && punct_kind(k, sentence_punctuation(s2)));
    }
    r
}

/// index of a tense in the parser's stamp trial order (0 is the fixed-time marker)
pub open spec fn tense_index(s: Stamp) -> int {
    match s { Stamp::Past => 1, Stamp::Present => 2, Stamp::Future => 3, _ => 0 }
}
/// vocabulary hypothesis for "term punctuation space tense" written alone as a whole input
pub open spec fn rt_sent3_ok(f: &NarseseFormat<&str>, l: Lay, k: int, j: int) -> bool {
    let e = lay_text(f, l) + punct_try_order(f)[k] + f.space.format_terms@
        + f.sentence.stamp_brackets.0@ + stamp_try_order(f)[j] + f.sentence.stamp_brackets.1@;
    let p2 = lay_text(f, l).len() + punct_try_order(f)[k].len();
    lay_ok(f, e, l, 0) && !kw_at(e, 0, f.space.parse@) && !kw_at(e, 0, f.task.budget_brackets.0@)
        && punct_at(f, e, lay_text(f, l).len() as int, k)
        && spaces_end(e, f.space.parse@, p2 as int) == p2 + f.space.format_terms@.len()
        && tense_at(f, e, (p2 + f.space.format_terms@.len()) as int, j)
}
/// C01 for sentences with a TENSE stamp (past / present / future) and without truth
#[verifier::rlimit(300)]
pub fn vx_roundtrip_sentence_tense(f: &NarseseFormat<&str>, s: &Sentence) -> (r: Result<Narsese, ParseError>)
    requires
        format_wf(f),
        sentence_stamp(*s) is Past || sentence_stamp(*s) is Present || sentence_stamp(*s) is Future,
        sentence_truth_empty(*s),
        forall|l: Lay| lay_of(l, sentence_term(*s)) ==> #[trigger] rt_sent3_ok(f, l, punct_index(sentence_punctuation(*s)), tense_index(sentence_stamp(*s))),
    ensures
        r matches Ok(NarseseValue::Sentence(s2)) && same_layout(sentence_term(*s), sentence_term(s2))
            && sentence_punctuation(s2) == sentence_punctuation(*s)
            && sentence_stamp(s2) == sentence_stamp(*s) && sentence_truth_empty(s2),
{
    hide(lay_ok); hide(lay_of); hide(lay_text);
    let text = f.format_sentence(s);
    let ghost k = punct_index(sentence_punctuation(*s));
    let ghost j = tense_index(sentence_stamp(*s));
    let ghost (a, c, d) = choose|a: Seq<char>, c: Seq<char>, d: Seq<char>|
        text@ == Seq::<char>::empty() + #[trigger] sentence_layout(a, punct_kw(f, sentence_punctuation(*s)), c, d, f.space.format_terms@)
        && term_out(f, sentence_term(*s), Seq::empty(), a)
        && stamp_out(f, sentence_stamp(*s), Seq::empty(), c)
        && truth_out(f, match sentence_truth(*s) { Some(t) => t, None => Truth::Empty }, Seq::empty(), d);
    proof {
        lemma_fmt_intro(f, sentence_term(*s), a);
    }
    let ghost l = choose|l: Lay| #[trigger] lay_of(l, sentence_term(*s)) && lay_text(f, l) == a;
    let mut st = f.build_parse_state(&text);
    proof {
        let tk = f.sentence.stamp_brackets.0@ + stamp_try_order(f)[j] + f.sentence.stamp_brackets.1@;
        assert(d.len() == 0);
        assert(c =~= tk);
        assert(punct_kw(f, sentence_punctuation(*s)) == punct_try_order(f)[k]);
        assert(rt_sent3_ok(f, l, k, j));
        assert(tense_at(f, lay_text(f, l) + punct_try_order(f)[k] + f.space.format_terms@ + f.sentence.stamp_brackets.0@ + stamp_try_order(f)[j] + f.sentence.stamp_brackets.1@,
            (lay_text(f, l).len() + punct_try_order(f)[k].len() + f.space.format_terms@.len()) as int, j));
        assert(c.len() > 0);
        assert(text@ =~= lay_text(f, l) + punct_try_order(f)[k] + f.space.format_terms@ + f.sentence.stamp_brackets.0@ + stamp_try_order(f)[j] + f.sentence.stamp_brackets.1@);
        assert(e_hyp(&st, l));
        assert(sent3_hyp(&st, l, k, j));
    }
    let r = from_parse_narsese((), &mut st);
    proof {
        assert(r matches Ok(NarseseValue::Sentence(s2)) && lay_of(l, sentence_term(*s)) && lay_of(l, sentence_term(s2))
            && punct_kind(k, sentence_punctuation(s2)) && stamp_kind(j, sentence_stamp(s2)));
    }
    r
}
