// ---- hand written prelude for unit term_core (specifications only; no repository code) ----
use vstd::prelude::*;
use vstd::std_specs::iter::IteratorSpec;
use vstd::std_specs::hash::*;
use std::collections::HashSet;
