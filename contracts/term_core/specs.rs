// ---- specifications for enum Term (written from the property statements, not from the code) ----

/// A5 (trusted, listed in evidence): std::collections::HashSet<Term> is modelled by vstd's
/// mathematical-set view.  vstd conditions every HashSet postcondition on obeys_key_model::<K>().
#[verifier::external_body]
pub proof fn axiom_term_key_model()
    ensures obeys_key_model::<Term>()
{}

/// C14 table: category of each of the 30 constructors, transcribed from the property text
/// ("atoms: word, placeholder, three variables, interval, operator; statements: the nine
/// copula forms; everything else compound").
pub open spec fn category_of(t: Term) -> TermCategory {
    match t {
        Term::Word(_) | Term::Placeholder | Term::VariableIndependent(_) | Term::VariableDependent(_)
        | Term::VariableQuery(_) | Term::Interval(_) | Term::Operator(_) => TermCategory::Atom,
        Term::Inheritance(_, _) | Term::Similarity(_, _) | Term::Implication(_, _) | Term::Equivalence(_, _)
        | Term::ImplicationPredictive(_, _) | Term::ImplicationConcurrent(_, _)
        | Term::ImplicationRetrospective(_, _) | Term::EquivalencePredictive(_, _)
        | Term::EquivalenceConcurrent(_, _) => TermCategory::Statement,
        _ => TermCategory::Compound,
    }
}

/// C14 table: capacity class.  atoms -> Atom; negation -> Unary; ordered pairs -> BinaryVec;
/// symmetric statements -> BinarySet; ordered variable-arity -> Vec; unordered -> Set.
pub open spec fn capacity_of(t: Term) -> TermCapacity {
    match t {
        Term::Word(_) | Term::Placeholder | Term::VariableIndependent(_) | Term::VariableDependent(_)
        | Term::VariableQuery(_) | Term::Interval(_) | Term::Operator(_) => TermCapacity::Atom,
        Term::Negation(_) => TermCapacity::Unary,
        Term::DifferenceExtension(_, _) | Term::DifferenceIntension(_, _) | Term::Inheritance(_, _)
        | Term::Implication(_, _) | Term::ImplicationPredictive(_, _) | Term::ImplicationConcurrent(_, _)
        | Term::ImplicationRetrospective(_, _) | Term::EquivalencePredictive(_, _) => TermCapacity::BinaryVec,
        Term::Similarity(_, _) | Term::Equivalence(_, _) | Term::EquivalenceConcurrent(_, _) => TermCapacity::BinarySet,
        Term::Product(_) | Term::ImageExtension(_, _) | Term::ImageIntension(_, _)
        | Term::ConjunctionSequential(_) => TermCapacity::Vec,
        Term::SetExtension(_) | Term::SetIntension(_) | Term::IntersectionExtension(_)
        | Term::IntersectionIntension(_) | Term::Conjunction(_) | Term::Disjunction(_)
        | Term::ConjunctionParallel(_) => TermCapacity::Set,
    }
}
