// ---- specifications for enum Term (written from the property statements, not from the code) ----

/// A5 (trusted, listed in evidence): std::collections::HashSet<Term> is modelled by vstd's
/// mathematical-set view.  vstd conditions every HashSet postcondition on obeys_key_model::<K>().
#[verifier::external_body]
pub proof fn axiom_term_key_model()
    ensures obeys_key_model::<Term>()
{}

/// C14 table: category of each of the 30 constructors, transcribed from the property text
/// ("atoms: word, placeholder, three variables, interval, operator; statements: the nine
/// copula forms; everything else compound").
pub open spec fn category_of(t: Term) -> TermCategory {
    match t {
        Term::Word(_) | Term::Placeholder | Term::VariableIndependent(_) | Term::VariableDependent(_)
        | Term::VariableQuery(_) | Term::Interval(_) | Term::Operator(_) => TermCategory::Atom,
        Term::Inheritance(_, _) | Term::Similarity(_, _) | Term::Implication(_, _) | Term::Equivalence(_, _)
        | Term::ImplicationPredictive(_, _) | Term::ImplicationConcurrent(_, _)
        | Term::ImplicationRetrospective(_, _) | Term::EquivalencePredictive(_, _)
        | Term::EquivalenceConcurrent(_, _) => TermCategory::Statement,
        _ => TermCategory::Compound,
    }
}

/// C14 table: capacity class.  atoms -> Atom; negation -> Unary; ordered pairs -> BinaryVec;
/// symmetric statements -> BinarySet; ordered variable-arity -> Vec; unordered -> Set.
pub open spec fn capacity_of(t: Term) -> TermCapacity {
    match t {
        Term::Word(_) | Term::Placeholder | Term::VariableIndependent(_) | Term::VariableDependent(_)
        | Term::VariableQuery(_) | Term::Interval(_) | Term::Operator(_) => TermCapacity::Atom,
        Term::Negation(_) => TermCapacity::Unary,
        Term::DifferenceExtension(_, _) | Term::DifferenceIntension(_, _) | Term::Inheritance(_, _)
        | Term::Implication(_, _) | Term::ImplicationPredictive(_, _) | Term::ImplicationConcurrent(_, _)
        | Term::ImplicationRetrospective(_, _) | Term::EquivalencePredictive(_, _) => TermCapacity::BinaryVec,
        Term::Similarity(_, _) | Term::Equivalence(_, _) | Term::EquivalenceConcurrent(_, _) => TermCapacity::BinarySet,
        Term::Product(_) | Term::ImageExtension(_, _) | Term::ImageIntension(_, _)
        | Term::ConjunctionSequential(_) => TermCapacity::Vec,
        Term::SetExtension(_) | Term::SetIntension(_) | Term::IntersectionExtension(_)
        | Term::IntersectionIntension(_) | Term::Conjunction(_) | Term::Disjunction(_)
        | Term::ConjunctionParallel(_) => TermCapacity::Set,
    }
}

/// C10: "the image whose placeholder index is the position of the first placeholder and whose
/// remaining components keep their order".
pub open spec fn is_first_placeholder(s: Seq<Term>, i: int) -> bool {
    0 <= i < s.len() && s[i] == Term::Placeholder
        && forall|j: int| 0 <= j < i ==> s[j] != Term::Placeholder
}
pub open spec fn has_placeholder(s: Seq<Term>) -> bool {
    exists|i: int| 0 <= i < s.len() && s[i] == Term::Placeholder
}

// ---- C14: components --------------------------------------------------------------------
pub open spec fn deref_seq(r: Seq<&Term>) -> Seq<Term> {
    r.map_values(|x: &Term| *x)
}

pub open spec fn is_set_like(t: Term) -> bool {
    capacity_of(t) == TermCapacity::Set
}

/// the unordered component container of a set-like term
pub open spec fn set_of(t: Term) -> Set<Term> {
    match t {
        Term::SetExtension(s) | Term::SetIntension(s) | Term::IntersectionExtension(s)
        | Term::IntersectionIntension(s) | Term::Conjunction(s) | Term::Disjunction(s)
        | Term::ConjunctionParallel(s) => s@,
        _ => Set::empty(),
    }
}

/// the ordered components of a term that is not set-like, *without* an image's placeholder:
/// an atom is its own single component, negation has one, binary terms two in stored order,
/// ordered compounds their vector.
pub open spec fn ordered_components(t: Term) -> Seq<Term> {
    match t {
        Term::Negation(a) => seq![*a],
        Term::DifferenceExtension(a, b) | Term::DifferenceIntension(a, b) | Term::Inheritance(a, b)
        | Term::Similarity(a, b) | Term::Implication(a, b) | Term::Equivalence(a, b)
        | Term::ImplicationPredictive(a, b) | Term::ImplicationConcurrent(a, b)
        | Term::ImplicationRetrospective(a, b) | Term::EquivalencePredictive(a, b)
        | Term::EquivalenceConcurrent(a, b) => seq![*a, *b],
        Term::Product(v) | Term::ImageExtension(_, v) | Term::ImageIntension(_, v)
        | Term::ConjunctionSequential(v) => v@,
        Term::SetExtension(_) | Term::SetIntension(_) | Term::IntersectionExtension(_)
        | Term::IntersectionIntension(_) | Term::Conjunction(_) | Term::Disjunction(_)
        | Term::ConjunctionParallel(_) => Seq::empty(),
        _ => seq![t],
    }
}

/// ordered components *with* the image placeholder re-inserted at its recorded index
pub open spec fn ordered_components_with_placeholder(t: Term) -> Seq<Term> {
    match t {
        Term::ImageExtension(i, v) | Term::ImageIntension(i, v) => v@.insert(i as int, Term::Placeholder),
        _ => ordered_components(t),
    }
}

/// a duplicate-free sequence that covers a finite set of the same size is an enumeration of it
pub proof fn lemma_enumeration_of_set(r: Seq<Term>, s: Set<Term>)
    requires
        r.no_duplicates(),
        r.len() == s.len(),
        forall|x: Term| #[trigger] s.contains(x) ==> r.contains(x),
    ensures
        r.to_set() == s,
{
    r.unique_seq_to_set();
    assert forall|x: Term| s.contains(x) implies #[trigger] r.to_set().contains(x) by {
        assert(r.contains(x));
    }
    assert(s.subset_of(r.to_set()));
    vstd::set_lib::lemma_subset_equality(s, r.to_set());
}

/// same, phrased over the `Seq<&Term>` a borrowing iterator yields; broadcast so that it can be
/// used at the end of a `match` arm that is a single expression
pub broadcast proof fn lemma_ref_enumeration_of_set(rem: Seq<&Term>, s: Set<Term>)
    requires
        rem.no_duplicates(),
        rem.len() == s.len(),
        forall|x: Term| #[trigger] s.contains(x) ==> rem.contains(&x),
    ensures
        #![trigger deref_seq(rem).to_set(), s.len()]
        deref_seq(rem).to_set() == s,
{
    let r = deref_seq(rem);
    assert forall|i: int, j: int| 0 <= i < r.len() && 0 <= j < r.len() && i != j implies r[i] != r[j] by {
        assert(rem[i] != rem[j]);
    }
    assert forall|x: Term| #[trigger] s.contains(x) implies r.contains(x) by {
        assert(rem.contains(&x));
        let i = choose|i: int| 0 <= i < rem.len() && rem[i] == &x;
        assert(r[i] == x);
    }
    lemma_enumeration_of_set(r, s);
}

// ---- C10: what the derived copulas mean (from the documentation quoted in the property) ------
/// `<S {-- P>` is `<{S} --> P>`
pub open spec fn is_instance_stmt(t: Term, subject: Term, predicate: Term) -> bool {
    t matches Term::Inheritance(a, b) && *b == predicate
        && (*a matches Term::SetExtension(s) && s@ == set![subject])
}
/// `<S --] P>` is `<S --> [P]>`
pub open spec fn is_property_stmt(t: Term, subject: Term, predicate: Term) -> bool {
    t matches Term::Inheritance(a, b) && *a == subject
        && (*b matches Term::SetIntension(s) && s@ == set![predicate])
}
/// `<S {-] P>` is `<{S} --> [P]>`
pub open spec fn is_instance_property_stmt(t: Term, subject: Term, predicate: Term) -> bool {
    t matches Term::Inheritance(a, b)
        && (*a matches Term::SetExtension(s) && s@ == set![subject])
        && (*b matches Term::SetIntension(s2) && s2@ == set![predicate])
}

// ---- shape predicates (one per binary constructor) ----
pub open spec fn is_DifferenceExtension(t: Term, a: Term, b: Term) -> bool { t matches Term::DifferenceExtension(x, y) && *x == a && *y == b }
pub open spec fn is_DifferenceIntension(t: Term, a: Term, b: Term) -> bool { t matches Term::DifferenceIntension(x, y) && *x == a && *y == b }
pub open spec fn is_Inheritance(t: Term, a: Term, b: Term) -> bool { t matches Term::Inheritance(x, y) && *x == a && *y == b }
pub open spec fn is_Similarity(t: Term, a: Term, b: Term) -> bool { t matches Term::Similarity(x, y) && *x == a && *y == b }
pub open spec fn is_Implication(t: Term, a: Term, b: Term) -> bool { t matches Term::Implication(x, y) && *x == a && *y == b }
pub open spec fn is_Equivalence(t: Term, a: Term, b: Term) -> bool { t matches Term::Equivalence(x, y) && *x == a && *y == b }
pub open spec fn is_ImplicationPredictive(t: Term, a: Term, b: Term) -> bool { t matches Term::ImplicationPredictive(x, y) && *x == a && *y == b }
pub open spec fn is_ImplicationConcurrent(t: Term, a: Term, b: Term) -> bool { t matches Term::ImplicationConcurrent(x, y) && *x == a && *y == b }
pub open spec fn is_ImplicationRetrospective(t: Term, a: Term, b: Term) -> bool { t matches Term::ImplicationRetrospective(x, y) && *x == a && *y == b }
pub open spec fn is_EquivalencePredictive(t: Term, a: Term, b: Term) -> bool { t matches Term::EquivalencePredictive(x, y) && *x == a && *y == b }
pub open spec fn is_EquivalenceConcurrent(t: Term, a: Term, b: Term) -> bool { t matches Term::EquivalenceConcurrent(x, y) && *x == a && *y == b }
pub open spec fn is_SetExtension(t: Term, s: Set<Term>) -> bool { t matches Term::SetExtension(x) && x@ == s }
pub open spec fn is_SetIntension(t: Term, s: Set<Term>) -> bool { t matches Term::SetIntension(x) && x@ == s }
pub open spec fn is_IntersectionExtension(t: Term, s: Set<Term>) -> bool { t matches Term::IntersectionExtension(x) && x@ == s }
pub open spec fn is_IntersectionIntension(t: Term, s: Set<Term>) -> bool { t matches Term::IntersectionIntension(x) && x@ == s }
pub open spec fn is_Conjunction(t: Term, s: Set<Term>) -> bool { t matches Term::Conjunction(x) && x@ == s }
pub open spec fn is_Disjunction(t: Term, s: Set<Term>) -> bool { t matches Term::Disjunction(x) && x@ == s }
pub open spec fn is_ConjunctionParallel(t: Term, s: Set<Term>) -> bool { t matches Term::ConjunctionParallel(x) && x@ == s }
pub open spec fn is_Product(t: Term, v: Seq<Term>) -> bool { t matches Term::Product(x) && x@ == v }
pub open spec fn is_ConjunctionSequential(t: Term, v: Seq<Term>) -> bool { t matches Term::ConjunctionSequential(x) && x@ == v }
/// image built from a component list that still contains placeholders: index = first placeholder,
/// components = the list without that placeholder, order kept
pub open spec fn is_ImageExtension_from(t: Term, with_placeholder: Seq<Term>) -> bool {
    t matches Term::ImageExtension(i, v) && is_first_placeholder(with_placeholder, i as int)
        && v@ == with_placeholder.remove(i as int) && i <= v.len()
}
/// image built from a component list that still contains placeholders: index = first placeholder,
/// components = the list without that placeholder, order kept
pub open spec fn is_ImageIntension_from(t: Term, with_placeholder: Seq<Term>) -> bool {
    t matches Term::ImageIntension(i, v) && is_first_placeholder(with_placeholder, i as int)
        && v@ == with_placeholder.remove(i as int) && i <= v.len()
}
pub open spec fn is_Negation(t: Term, a: Term) -> bool { t matches Term::Negation(x) && *x == a }

// ---- C17 / parser: what the mutators do (reference model taken from the property text) ----
pub open spec fn named_atom_name(t: Term) -> Option<String> {
    match t {
        Term::Word(n) | Term::VariableIndependent(n) | Term::VariableDependent(n)
        | Term::VariableQuery(n) | Term::Operator(n) => Some(n),
        _ => None,
    }
}
/// A2: the decimal text std prints for an unsigned integer (`usize::to_string`), left unspecified
/// but for the one fact C01 needs: std's `str::parse::<usize>` reads it back (axiom_usize_text_parses)
pub uninterp spec fn usize_text(i: usize) -> Seq<char>;
#[verifier::external_body]
pub broadcast proof fn axiom_usize_to_string(t: &usize, s: String)
    requires #[trigger] vstd::string::to_string_from_display_ensures::<usize>(t, s)
    ensures s@ == usize_text(*t)
{}
/// A2 (std): `usize::from_str` accepts the text `usize::to_string` prints, with the same value
#[verifier::external_body]
pub proof fn axiom_usize_text_parses(i: usize)
    ensures parse_spec::<usize>(usize_text(i)) == Some(i)
{}
/// the name part of an atom as text: the stored name; nothing for the placeholder; an
/// interval's number in decimal (std's `usize::to_string`)
pub open spec fn atom_name_rel(t: Term, n: Seq<char>) -> bool {
    (named_atom_name(t) matches Some(x) ==> n == x@) && (t is Placeholder ==> n.len() == 0)
        && (t matches Term::Interval(i) ==> n == usize_text(i))
}
/// same constructor among the atoms
pub open spec fn atom_kind_same(a: Term, b: Term) -> bool {
    (a is Word <==> b is Word) && (a is Placeholder <==> b is Placeholder)
    && (a is VariableIndependent <==> b is VariableIndependent)
    && (a is VariableDependent <==> b is VariableDependent)
    && (a is VariableQuery <==> b is VariableQuery) && (a is Interval <==> b is Interval)
    && (a is Operator <==> b is Operator)
}
/// appending components: in order for ordered compounds (an image keeps its index), united into
/// unordered ones
pub open spec fn pushed_components(old: Term, cs: Seq<Term>, new: Term) -> bool {
    match old {
        Term::Product(v) => is_Product(new, v@ + cs),
        Term::ConjunctionSequential(v) => is_ConjunctionSequential(new, v@ + cs),
        Term::ImageExtension(i, v) => new matches Term::ImageExtension(j, w) && j == i && w@ == v@ + cs,
        Term::ImageIntension(i, v) => new matches Term::ImageIntension(j, w) && j == i && w@ == v@ + cs,
        Term::SetExtension(s) => is_SetExtension(new, s@.union(cs.to_set())),
        Term::SetIntension(s) => is_SetIntension(new, s@.union(cs.to_set())),
        Term::IntersectionExtension(s) => is_IntersectionExtension(new, s@.union(cs.to_set())),
        Term::IntersectionIntension(s) => is_IntersectionIntension(new, s@.union(cs.to_set())),
        Term::Conjunction(s) => is_Conjunction(new, s@.union(cs.to_set())),
        Term::Disjunction(s) => is_Disjunction(new, s@.union(cs.to_set())),
        Term::ConjunctionParallel(s) => is_ConjunctionParallel(new, s@.union(cs.to_set())),
        _ => false,
    }
}

/// a non-empty component list gives a non-empty component set
pub broadcast proof fn lemma_nonempty_seq_to_set(s: Seq<Term>)
    requires s.len() > 0
    ensures #[trigger] s.to_set().len() > 0
{
    assert(s.to_set().contains(s[0]));
    if s.to_set().len() == 0 {
        s.to_set().lemma_len0_is_empty();
        assert(false);
    }
}
/// ... also after uniting it into another set
pub broadcast proof fn lemma_union_nonempty(a: Set<Term>, s: Seq<Term>)
    requires s.len() > 0
    ensures #[trigger] a.union(s.to_set()).len() > 0
{
    assert(a.union(s.to_set()).contains(s[0]));
    if a.union(s.to_set()).len() == 0 {
        a.union(s.to_set()).lemma_len0_is_empty();
        assert(false);
    }
}

// ---- C14: the image iterator ---------------------------------------------------------------
/// the sequence ImageIterator yields from a state (remaining inner items, running index `now`,
/// placeholder index `p`): the placeholder is injected when the running index reaches p.
pub open spec fn image_iter_seq(rem: Seq<&Term>, now: int, p: int) -> Seq<&Term>
    decreases rem.len(), (if now <= p { p - now + 1 } else { 0 }),
{
    if now == p {
        seq![&Term::Placeholder] + image_iter_seq(rem, now + 1, p)
    } else if rem.len() == 0 {
        Seq::empty()
    } else {
        seq![rem[0]] + image_iter_seq(rem.skip(1), now + 1, p)
    }
}

/// the step semantics above is "insert the placeholder at position p - now" whenever that
/// position lies within the remaining items (a well-formed image: index <= number of components)
pub proof fn lemma_image_iter_is_insert(rem: Seq<&Term>, now: int, p: int)
    requires now <= p <= now + rem.len()
    ensures image_iter_seq(rem, now, p) == rem.insert(p - now, &Term::Placeholder)
    decreases rem.len(), (if now <= p { p - now + 1 } else { 0 }),
{
    if now == p {
        lemma_image_iter_no_placeholder(rem, now + 1, p);
        assert(image_iter_seq(rem, now, p) =~= rem.insert(0, &Term::Placeholder));
    } else {
        lemma_image_iter_is_insert(rem.skip(1), now + 1, p);
        assert(image_iter_seq(rem, now, p) =~= rem.insert(p - now, &Term::Placeholder));
    }
}
/// once the running index is past p the iterator just forwards the inner items
pub proof fn lemma_image_iter_no_placeholder(rem: Seq<&Term>, now: int, p: int)
    requires now > p
    ensures image_iter_seq(rem, now, p) == rem
    decreases rem.len()
{
    if rem.len() > 0 {
        lemma_image_iter_no_placeholder(rem.skip(1), now + 1, p);
        assert(image_iter_seq(rem, now, p) =~= rem);
    } else {
        assert(image_iter_seq(rem, now, p) =~= rem);
    }
}
/// a placeholder index beyond the remaining items is never reached: the items only
pub proof fn lemma_image_iter_beyond(rem: Seq<&Term>, now: int, p: int)
    requires p > now + rem.len()
    ensures image_iter_seq(rem, now, p) == rem
    decreases rem.len()
{
    if rem.len() > 0 {
        lemma_image_iter_beyond(rem.skip(1), now + 1, p);
        assert(image_iter_seq(rem, now, p) =~= rem);
    } else {
        assert(image_iter_seq(rem, now, p) =~= rem);
    }
}
/// both cases at once (callable without a case split on prophetic values)
pub proof fn lemma_image_iter_cases(rem: Seq<&Term>, now: int, p: int)
    ensures
        now <= p <= now + rem.len() ==> image_iter_seq(rem, now, p) == rem.insert(p - now, &Term::Placeholder),
        p > now + rem.len() ==> image_iter_seq(rem, now, p) == rem,
{
    if now <= p <= now + rem.len() { lemma_image_iter_is_insert(rem, now, p); }
    if p > now + rem.len() { lemma_image_iter_beyond(rem, now, p); }
}
/// one-step unfolding of image_iter_seq in head / tail form (what vstd's law for `next` needs)
pub proof fn lemma_image_iter_unfold(rem: Seq<&Term>, now: int, p: int)
    ensures
        now == p ==> image_iter_seq(rem, now, p).len() > 0 && image_iter_seq(rem, now, p)[0] == &Term::Placeholder
            && image_iter_seq(rem, now, p).skip(1) == image_iter_seq(rem, now + 1, p),
        now != p && rem.len() > 0 ==> image_iter_seq(rem, now, p).len() > 0 && image_iter_seq(rem, now, p)[0] == rem[0]
            && image_iter_seq(rem, now, p).skip(1) == image_iter_seq(rem.skip(1), now + 1, p),
        now != p && rem.len() == 0 ==> image_iter_seq(rem, now, p).len() == 0,
{
    if now == p {
        assert(image_iter_seq(rem, now, p).skip(1) =~= image_iter_seq(rem, now + 1, p));
    } else if rem.len() > 0 {
        assert(image_iter_seq(rem, now, p).skip(1) =~= image_iter_seq(rem.skip(1), now + 1, p));
    }
}

// ---- std pieces used by push_components (A2) ----
#[verifier::external_type_specification]
#[verifier::external_body]
pub struct ExIoError(std::io::Error);
#[verifier::external_type_specification]
pub struct ExIoErrorKind(std::io::ErrorKind);
/// R5: `IoError::new(kind, "text")` -> opaque helper (io::Error::new is generic over
/// `Into<Box<dyn Error + Send + Sync>>`, which Verus cannot express); assumed not to panic
#[verifier::external_body]
pub fn vx_io_error(kind: std::io::ErrorKind, msg: &str) -> std::io::Error { std::io::Error::new(kind, msg) }
pub uninterp spec fn vx_into_seq<T, I>(iter: I) -> Seq<T>;
pub assume_specification<T, A: std::alloc::Allocator, I: IntoIterator<Item = T>>[ <Vec<T, A> as Extend<T>>::extend::<I> ](v: &mut Vec<T, A>, iter: I)
    ensures final(v)@ == old(v)@ + vx_into_seq::<T, I>(iter);
#[verifier::external_body]
pub broadcast proof fn axiom_vec_into_seq<T>(v: Vec<T>)
    ensures #[trigger] vx_into_seq::<T, Vec<T>>(v) == v@
{}
/// `HashSet::extend` inserts every item (under the set model A5)
pub assume_specification<T: Eq + std::hash::Hash, S: std::hash::BuildHasher, A: std::alloc::Allocator, I: IntoIterator<Item = T>>[ <HashSet<T, S, A> as Extend<T>>::extend::<I> ](s: &mut HashSet<T, S, A>, iter: I)
    ensures obeys_key_model::<T>() && builds_valid_hashers::<S>() ==> final(s)@ == old(s)@.union(vx_into_seq::<T, I>(iter).to_set());
pub broadcast proof fn axiom_set_extend_vec(v: Vec<Term>)
    ensures #[trigger] vx_into_seq::<Term, Vec<Term>>(v).to_set() == v@.to_set()
{ axiom_vec_into_seq(v); }

/// A2: `Vec::dedup` removes consecutive repeated elements (spec equality standing in for
/// `PartialEq::eq`, exact for types whose `==` is structural).  Not used by the code under
/// contract today; stated so that a change that starts to deduplicate is *decided*.
pub open spec fn dedup_adjacent<T>(s: Seq<T>) -> Seq<T>
    decreases s.len()
{
    if s.len() <= 1 { s }
    else if s[s.len() - 2] == s.last() { dedup_adjacent(s.drop_last()) }
    else { dedup_adjacent(s.drop_last()).push(s.last()) }
}
pub assume_specification<T: PartialEq, A: std::alloc::Allocator>[ Vec::<T, A>::dedup ](v: &mut Vec<T, A>)
    ensures final(v)@ == dedup_adjacent(old(v)@);
/// A2: `str::eq_ignore_ascii_case`: equal strings compare equal (partial: nothing is claimed
/// for different strings)
pub assume_specification[ str::eq_ignore_ascii_case ](a: &str, b: &str) -> (r: bool)
    ensures a@ == b@ ==> r;

/// A2: `str::strip_prefix` (any pattern) returns a suffix of the string or None (partial: which
/// suffix is not specified).  Not used by the code under contract today; stated so that a change
/// that starts to strip a prefix from a name is *decided*.
#[verifier::external_trait_specification]
pub trait ExPattern: Sized {
    type ExternalTraitSpecificationFor: core::str::pattern::Pattern;
}
pub assume_specification<'a, P: core::str::pattern::Pattern>[ str::strip_prefix::<P> ](s: &'a str, p: P) -> (r: Option<&'a str>)
    ensures r matches Some(x) ==> x@.len() <= s@.len();

/// A2: `str::parse` never panics; its value is an uninterpreted function of the text
pub uninterp spec fn parse_spec<F>(s: Seq<char>) -> Option<F>;
/// R20: the interval arm of set_atom_name is `new_name.parse().transform(|v| *interval = v, |_| err)`
/// - a closure capturing `&mut`, which Verus does not support.  The arm is replaced by this
/// helper whose body is that expression; its contract is ASSUMED.
#[verifier::external_body]
pub fn vx_set_interval(interval: &mut usize, new_name: &str) -> (r: Result<(), std::io::Error>)
    ensures match parse_spec::<usize>(new_name@) {
        Some(v) => r is Ok && *final(interval) == v,
        None => r is Err && *final(interval) == *old(interval),
    }
{
    use nar_dev_utils::ResultBoost;
    new_name.parse().transform(
        |new_interval| { *interval = new_interval },
        |_| std::io::Error::new(std::io::ErrorKind::InvalidInput, "invalid interval"),
    )
}

/// R21: vstd has no model of the OWNING iterator of a HashSet; `set.into_iter().collect::<Vec<_>>()`
/// is replaced by this helper with the assumed contract of std (A5): the members, each once.
#[verifier::external_body]
pub fn vx_set_into_vec(set: HashSet<Term>) -> (v: Vec<Term>)
    ensures v@.to_set() == set@, v@.len() == set@.len(), v@.no_duplicates()
{ set.into_iter().collect::<Vec<_>>() }
