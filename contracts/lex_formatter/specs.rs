// ---- hand written specifications for unit lex_formatter (no repository code) ----
/// A7': a Vec of a non-zero-sized element type never has more than isize::MAX elements
#[verifier::external_body]
pub proof fn axiom_vec_len_bound<T>(v: &Vec<T>)
    ensures v@.len() <= isize::MAX
{}

/// C11 reference layout of a lexical term, written from the README's PEG grammar:
///   atom      <- prefix name
///   compound  <- '(' connecter ',' sp term (',' sp term)* ')'
///   set       <- left term (',' sp term)* right
///   statement <- '<' term sp copula sp term '>'
/// with the format's own brackets / separator / space and the term's own keyword strings.
pub open spec fn lex_text(f: &NarseseFormat, t: Term) -> Seq<char>
    decreases t, 0nat
{
    match t {
        Term::Atom { prefix, name } => prefix@ + name@,
        Term::Compound { connecter, terms } =>
            f.compound.brackets.0@ + connecter@ + f.compound.separator@ + f.space.format_terms@
                + lex_join(f, terms, terms@.len(), f.compound.separator@ + f.space.format_terms@)
                + f.compound.brackets.1@,
        Term::Set { left_bracket, terms, right_bracket } =>
            left_bracket@ + lex_join(f, terms, terms@.len(), f.compound.separator@ + f.space.format_terms@) + right_bracket@,
        Term::Statement { copula, subject, predicate } =>
            f.statement.brackets.0@ + lex_text(f, *subject) + f.space.format_terms@ + copula@
                + f.space.format_terms@ + lex_text(f, *predicate) + f.statement.brackets.1@,
    }
}
/// the texts of the first n components, `sep` between consecutive ones
pub open spec fn lex_join(f: &NarseseFormat, v: Vec<Term>, n: nat, sep: Seq<char>) -> Seq<char>
    decreases v, n
{
    if n == 0 || n > v@.len() { Seq::empty() }
    else if n == 1 { lex_text(f, v@[0]) }
    else { lex_join(f, v, (n - 1) as nat, sep) + sep + lex_text(f, v@[n - 1]) }
}
/// joining the formatted component strings is lex_join
pub proof fn lemma_joined_prefix(f: &NarseseFormat, v: Vec<Term>, strs: Seq<String>, n: nat, sep: Seq<char>)
    requires
        strs.len() == v@.len(), n <= v@.len(),
        forall|i: int| 0 <= i < strs.len() ==> (#[trigger] strs[i])@ == lex_text(f, v@[i]),
    ensures joined(strs.take(n as int), sep) == lex_join(f, v, n, sep)
    decreases n
{
    if n == 0 {
    } else if n == 1 {
        assert(strs.take(1)[0] == strs[0]);
    } else {
        lemma_joined_prefix(f, v, strs, (n - 1) as nat, sep);
        assert(strs.take(n as int).drop_last() =~= strs.take(n - 1));
        assert(strs.take(n as int).last() == strs[n - 1]);
    }
}
/// (instantiated for every string sequence that matches the components, so that it applies
/// to the vector the helper returns)
pub proof fn lemma_joined_is_lex_join(f: &NarseseFormat, v: Vec<Term>, sep: Seq<char>)
    ensures
        forall|strs: Seq<String>| (strs.len() == v@.len()
            && (forall|i: int| 0 <= i < strs.len() ==> (#[trigger] strs[i])@ == lex_text(f, v@[i])))
            ==> #[trigger] joined(strs, sep) == lex_join(f, v, v@.len(), sep),
{
    assert forall|strs: Seq<String>| (strs.len() == v@.len()
            && (forall|i: int| 0 <= i < strs.len() ==> (#[trigger] strs[i])@ == lex_text(f, v@[i])))
            implies #[trigger] joined(strs, sep) == lex_join(f, v, v@.len(), sep) by {
        lemma_joined_prefix(f, v, strs, v@.len(), sep);
        assert(strs.take(strs.len() as int) =~= strs);
    }
}
pub open spec fn truth_text(f: &NarseseFormat, t: Truth) -> Seq<char> {
    if t@.len() == 0 { Seq::empty() }
    else { f.sentence.truth_brackets.0@ + joined(t@, f.sentence.truth_separator@) + f.sentence.truth_brackets.1@ }
}
/// C15: brackets always
pub open spec fn budget_text(f: &NarseseFormat, b: Budget) -> Seq<char> {
    f.task.budget_brackets.0@ + joined(b@, f.task.budget_separator@) + f.task.budget_brackets.1@
}
/// term punctuation [sep stamp] [sep truth], sep = the item-level space
pub open spec fn sentence_text(f: &NarseseFormat, s: Sentence) -> Seq<char> {
    sentence_layout(lex_text(f, s.term), s.punctuation@, s.stamp@, truth_text(f, s.truth), f.space.format_items@)
}
/// budget [sep sentence]
pub open spec fn task_text(f: &NarseseFormat, t: Task) -> Seq<char> {
    budget_text(f, t.budget)
        + (if sentence_text(f, t.sentence).len() == 0 { Seq::empty() } else { f.space.format_items@ + sentence_text(f, t.sentence) })
}
/// nar_dev_utils::join_to over a slice iterator of Strings (dependency, A2: contract read off
/// its source: elements in order, `sep` between consecutive ones)
#[verifier::external_body]
pub fn join_to(out: &mut String, iter: std::slice::Iter<'_, String>, sep: &String)
    ensures
        // stated for every string sequence that equals the iterated one element by element
        forall|strs: Seq<String>| (strs.len() == iter.remaining().len()
            && (forall|i: int| 0 <= i < strs.len() ==> #[trigger] strs[i] == *iter.remaining()[i]))
            ==> final(out)@ == old(out)@ + #[trigger] joined(strs, sep@),
{ unimplemented!() }
/// nar_dev_utils::add_space_if_necessary_and_flush_buffer (dependency, A2)
#[verifier::external_body]
pub fn add_space_if_necessary_and_flush_buffer(out: &mut String, buffer: &mut String, separator: &String)
    ensures
        old(buffer)@.len() == 0 ==> final(out)@ == old(out)@,
        old(buffer)@.len() > 0 ==> final(out)@ == old(out)@ + separator@ + old(buffer)@,
{ unimplemented!() }

/// the text of a whole lexical value
pub open spec fn narsese_text(f: &NarseseFormat, n: Narsese) -> Seq<char> {
    match n {
        NarseseValue::Term(t) => lex_text(f, t),
        NarseseValue::Sentence(s) => sentence_text(f, s),
        NarseseValue::Task(t) => task_text(f, t),
    }
}
/// A2: `Vec::dedup` removes consecutive repeated elements (the lexical units do not include the
/// enum term model, where the same contract is stated; it is not used on the pinned tree and is
/// stated so that a change that starts to deduplicate is *decided*)
pub open spec fn dedup_adjacent_l<T>(s: Seq<T>) -> Seq<T>
    decreases s.len()
{
    if s.len() <= 1 { s }
    else if s[s.len() - 2] == s.last() { dedup_adjacent_l(s.drop_last()) }
    else { dedup_adjacent_l(s.drop_last()).push(s.last()) }
}
pub assume_specification<T: PartialEq, A: std::alloc::Allocator>[ Vec::<T, A>::dedup ](v: &mut Vec<T, A>)
    ensures final(v)@ == dedup_adjacent_l(old(v)@);
