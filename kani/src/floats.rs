//! C13: truth / budget / evidence numbers accept exactly the closed unit interval.
//! Every harness here is loop-free over all 2^64 bit patterns of each f64 => complete.
use narsese::api::{EvidentNumber, EvidentValue};
use narsese::enum_narsese::{Budget, Truth};

/// the property's oracle, written independently of the code: 0 <= x <= 1 (false for NaN)
fn in01(x: f64) -> bool {
    x >= 0.0 && x <= 1.0
}
fn same(a: f64, b: f64) -> bool {
    a.to_bits() == b.to_bits()
}

// ---------------------------------------------------------------- Truth::try_from_floats
#[kani::proof]
fn truth_try_from_floats_all_arities() {
    let a: [f64; 5] = kani::any();
    let n: usize = kani::any();
    kani::assume(n <= 5);
    let r = Truth::try_from_floats(a.into_iter().take(n));
    // consumed components: at most 2, surplus ignored
    let consumed = if n < 2 { n } else { 2 };
    let mut all_in = true;
    if consumed >= 1 { all_in = all_in && in01(a[0]); }
    if consumed >= 2 { all_in = all_in && in01(a[1]); }
    assert!(r.is_ok() == all_in);
    if let Ok(t) = r {
        match (consumed, t) {
            (0, Truth::Empty) => {}
            (1, Truth::Single(f)) => assert!(same(f, a[0])),
            (2, Truth::Double(f, c)) => assert!(same(f, a[0]) && same(c, a[1])),
            _ => panic!("wrong arity"),
        }
    }
}

// ---------------------------------------------------------------- Budget::try_from_floats
#[kani::proof]
fn budget_try_from_floats_all_arities() {
    let a: [f64; 5] = kani::any();
    let n: usize = kani::any();
    kani::assume(n <= 5);
    let r = Budget::try_from_floats(a.into_iter().take(n));
    let consumed = if n < 3 { n } else { 3 };
    let mut all_in = true;
    if consumed >= 1 { all_in = all_in && in01(a[0]); }
    if consumed >= 2 { all_in = all_in && in01(a[1]); }
    if consumed >= 3 { all_in = all_in && in01(a[2]); }
    assert!(r.is_ok() == all_in);
    if let Ok(b) = r {
        match (consumed, b) {
            (0, Budget::Empty) => {}
            (1, Budget::Single(p)) => assert!(same(p, a[0])),
            (2, Budget::Double(p, d)) => assert!(same(p, a[0]) && same(d, a[1])),
            (3, Budget::Triple(p, d, q)) => assert!(same(p, a[0]) && same(d, a[1]) && same(q, a[2])),
            _ => panic!("wrong arity"),
        }
    }
}

// ---------------------------------------------------------------- panicking constructors
// "the panicking constructors panic exactly when the fallible ones return Err"
#[kani::proof]
fn truth_new_ok_when_in_range() {
    let f: f64 = kani::any();
    let c: f64 = kani::any();
    kani::assume(in01(f));
    match Truth::new_single(f) { Truth::Single(x) => assert!(same(x, f)), _ => panic!() }
    kani::assume(in01(c));
    match Truth::new_double(f, c) { Truth::Double(x, y) => assert!(same(x, f) && same(y, c)), _ => panic!() }
    assert!(matches!(Truth::new_empty(), Truth::Empty));
}
#[kani::proof]
#[kani::should_panic]
fn truth_new_single_panics_out_of_range() {
    let f: f64 = kani::any();
    kani::assume(!in01(f));
    let _ = Truth::new_single(f); kani::cover!(true, "RETURNED-WITHOUT-PANIC");
}
#[kani::proof]
#[kani::should_panic]
fn truth_new_double_panics_out_of_range() {
    let f: f64 = kani::any();
    let c: f64 = kani::any();
    kani::assume(!in01(f) || !in01(c));
    let _ = Truth::new_double(f, c); kani::cover!(true, "RETURNED-WITHOUT-PANIC");
}
#[kani::proof]
fn budget_new_ok_when_in_range() {
    let p: f64 = kani::any();
    let d: f64 = kani::any();
    let q: f64 = kani::any();
    kani::assume(in01(p));
    match Budget::new_single(p) { Budget::Single(x) => assert!(same(x, p)), _ => panic!() }
    kani::assume(in01(d));
    match Budget::new_double(p, d) { Budget::Double(x, y) => assert!(same(x, p) && same(y, d)), _ => panic!() }
    kani::assume(in01(q));
    match Budget::new_triple(p, d, q) { Budget::Triple(x, y, z) => assert!(same(x, p) && same(y, d) && same(z, q)), _ => panic!() }
    assert!(matches!(Budget::new_empty(), Budget::Empty));
}
#[kani::proof]
#[kani::should_panic]
fn budget_new_single_panics_out_of_range() {
    let p: f64 = kani::any();
    kani::assume(!in01(p));
    let _ = Budget::new_single(p); kani::cover!(true, "RETURNED-WITHOUT-PANIC");
}
#[kani::proof]
#[kani::should_panic]
fn budget_new_double_panics_out_of_range() {
    let p: f64 = kani::any();
    let d: f64 = kani::any();
    kani::assume(!in01(p) || !in01(d));
    let _ = Budget::new_double(p, d); kani::cover!(true, "RETURNED-WITHOUT-PANIC");
}
#[kani::proof]
#[kani::should_panic]
fn budget_new_triple_panics_out_of_range() {
    let p: f64 = kani::any();
    let d: f64 = kani::any();
    let q: f64 = kani::any();
    kani::assume(!in01(p) || !in01(d) || !in01(q));
    let _ = Budget::new_triple(p, d, q); kani::cover!(true, "RETURNED-WITHOUT-PANIC");
}

// ---------------------------------------------------------------- accessors
// "accessors return the stored numbers unchanged, panicking only for components the variant
// does not have"
#[kani::proof]
fn truth_accessors_return_stored() {
    let f: f64 = kani::any();
    let c: f64 = kani::any();
    assert!(same(Truth::Single(f).f(), f));
    assert!(same(Truth::Double(f, c).f(), f));
    assert!(same(Truth::Double(f, c).c(), c));
    assert!(same(Truth::Double(f, c).frequency(), f) && same(Truth::Double(f, c).confidence(), c));
}
#[kani::proof] #[kani::should_panic] fn truth_empty_f_panics() { let _ = Truth::Empty.f(); kani::cover!(true, "RETURNED-WITHOUT-PANIC"); }
#[kani::proof] #[kani::should_panic] fn truth_empty_c_panics() { let _ = Truth::Empty.c(); kani::cover!(true, "RETURNED-WITHOUT-PANIC"); }
#[kani::proof] #[kani::should_panic] fn truth_single_c_panics() { let f: f64 = kani::any(); let _ = Truth::Single(f).c(); kani::cover!(true, "RETURNED-WITHOUT-PANIC"); }
#[kani::proof]
fn budget_accessors_return_stored() {
    let p: f64 = kani::any();
    let d: f64 = kani::any();
    let q: f64 = kani::any();
    assert!(same(Budget::Single(p).p(), p));
    assert!(same(Budget::Double(p, d).p(), p) && same(Budget::Double(p, d).d(), d));
    let t = Budget::Triple(p, d, q);
    assert!(same(t.p(), p) && same(t.d(), d) && same(t.q(), q));
    assert!(same(t.priority(), p) && same(t.duality(), d) && same(t.quality(), q));
    assert!(Budget::Empty.is_empty() && !t.is_empty());
}
#[kani::proof] #[kani::should_panic] fn budget_empty_p_panics() { let _ = Budget::Empty.p(); kani::cover!(true, "RETURNED-WITHOUT-PANIC"); }
#[kani::proof] #[kani::should_panic] fn budget_empty_d_panics() { let _ = Budget::Empty.d(); kani::cover!(true, "RETURNED-WITHOUT-PANIC"); }
#[kani::proof] #[kani::should_panic] fn budget_single_d_panics() { let p: f64 = kani::any(); let _ = Budget::Single(p).d(); kani::cover!(true, "RETURNED-WITHOUT-PANIC"); }
#[kani::proof] #[kani::should_panic] fn budget_empty_q_panics() { let _ = Budget::Empty.q(); kani::cover!(true, "RETURNED-WITHOUT-PANIC"); }
#[kani::proof] #[kani::should_panic] fn budget_double_q_panics() { let p: f64 = kani::any(); let d: f64 = kani::any(); let _ = Budget::Double(p, d).q(); kani::cover!(true, "RETURNED-WITHOUT-PANIC"); }

// ---------------------------------------------------------------- EvidentNumber for f64
#[kani::proof]
fn evident_number_validators_agree() {
    let x: f64 = kani::any();
    let v = EvidentNumber::is_valid(&x);
    assert!(v == in01(x));
    assert!(EvidentNumber::try_validate(&x).is_ok() == v);
    if v {
        assert!(same(*EvidentNumber::validate(&x), x));
        assert!(same(*EvidentNumber::try_validate(&x).unwrap(), x));
    }
    assert!(EvidentNumber::is_valid(&<f64 as EvidentNumber>::zero()));
    assert!(EvidentNumber::is_valid(&<f64 as EvidentNumber>::one()));
    assert!(same(<f64 as EvidentNumber>::zero(), 0.0) && same(<f64 as EvidentNumber>::one(), 1.0));
}
#[kani::proof]
#[kani::should_panic]
fn evident_number_validate_panics_when_invalid() {
    let x: f64 = kani::any();
    kani::assume(!in01(x));
    let _ = EvidentNumber::validate(&x); kani::cover!(true, "RETURNED-WITHOUT-PANIC");
}
/// nar_dev_utils' ZeroOneFloat (the predicate the parser and the constructors call) is the oracle
#[kani::proof]
fn zero_one_float_is_the_closed_unit_interval() {
    use nar_dev_utils_reexport::*;
    let x: f64 = kani::any();
    assert!(is_in_01_f64(x) == in01(x));
}
mod nar_dev_utils_reexport {
    /// `ZeroOneFloat::is_in_01` is reachable through the blanket EvidentNumber impl
    pub fn is_in_01_f64(x: f64) -> bool {
        narsese::api::EvidentNumber::is_valid(&x)
    }
}
