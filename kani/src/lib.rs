//! Kani harnesses compiled against the real `narsese` crate (path dependency on /repo).
//! Loop-free harnesses over full-domain symbolic inputs are complete proofs; harnesses marked
//! BOUNDED in their doc comment (and in contracts/props.json) are stand-ins only.
#![allow(unused)]

#[cfg(kani)]
mod floats;
#[cfg(kani)]
mod tables;
