//! Vocabulary side conditions of the three shipped ENUM formats (input-free: the harnesses only
//! evaluate constants, so they are complete).  They discharge the hypotheses
//! `format_wf(format)` and `vocabulary_distinct(format)` that the Verus contracts of the
//! enum parser and of the lexical fold carry, and compare the ASCII vocabulary with the
//! published lexicon (C11, lexicon part).
use narsese::conversion::string::impl_enum::format_instances::{FORMAT_ASCII, FORMAT_HAN, FORMAT_LATEX};
use narsese::conversion::string::impl_enum::NarseseFormat;

fn distinct(xs: &[&str]) -> bool {
    let mut i = 0;
    while i < xs.len() {
        let mut j = i + 1;
        while j < xs.len() {
            if xs[i] == xs[j] {
                return false;
            }
            j += 1;
        }
        i += 1;
    }
    true
}

/// the keywords of one dispatch of the enum parser, in the order the parser tries them: a keyword
/// tried earlier must not be a prefix of one tried later, otherwise the later one can never be
/// selected (the lexical parser matches the longest keyword first, so the two pipelines would
/// disagree on it - C03; and the derived copulas / connecters would not mean what is documented - C10)
fn reachable_in_order(xs: &[&str]) -> bool {
    let mut i = 0;
    while i < xs.len() {
        let mut j = i + 1;
        while j < xs.len() {
            if xs[j].starts_with(xs[i]) {
                return false;
            }
            j += 1;
        }
        i += 1;
    }
    true
}

/// mirrors the Verus spec functions format_wf / vocabulary_distinct (contracts/common/format_specs.rs,
/// contracts/enum_parser/specs.rs) clause by clause
fn check_format(f: &NarseseFormat<&str>) {
    // format_wf
    assert!(!f.space.parse.is_empty());
    assert!(!f.compound.brackets.0.is_empty());
    assert!(!f.statement.brackets.0.is_empty());
    assert!(!f.compound.brackets_set_extension.0.is_empty());
    assert!(!f.compound.brackets_set_intension.0.is_empty());
    assert!(!f.atom.prefix_placeholder.is_empty());
    assert!(!f.compound.separator.is_empty());
    // vocabulary_distinct
    assert!(distinct(&f.copulas()));
    let c = &f.compound;
    assert!(distinct(&[
        c.connecter_intersection_extension, c.connecter_intersection_intension,
        c.connecter_difference_extension, c.connecter_difference_intension, c.connecter_product,
        c.connecter_image_extension, c.connecter_image_intension, c.connecter_conjunction,
        c.connecter_disjunction, c.connecter_negation, c.connecter_conjunction_sequential,
        c.connecter_conjunction_parallel,
    ]));
    let a = &f.atom;
    assert!(distinct(&[
        a.prefix_word, a.prefix_placeholder, a.prefix_variable_independent, a.prefix_variable_dependent,
        a.prefix_variable_query, a.prefix_interval, a.prefix_operator,
    ]));
    assert!(c.brackets_set_extension.0 != c.brackets_set_intension.0
        || c.brackets_set_extension.1 != c.brackets_set_intension.1);
    // every keyword is reachable in the enum parser's trial order (transcribed from the dispatch
    // sites consume_punctuation, consume_stamp, parse_statement, parse_compound, parse_atom, parse_term)
    let n = &f.sentence;
    assert!(reachable_in_order(&[n.punctuation_judgement, n.punctuation_goal, n.punctuation_question, n.punctuation_quest]));
    assert!(reachable_in_order(&[n.stamp_fixed, n.stamp_past, n.stamp_present, n.stamp_future]));
    let s = &f.statement;
    assert!(reachable_in_order(&[
        s.copula_inheritance, s.copula_similarity, s.copula_implication, s.copula_equivalence,
        s.copula_instance, s.copula_property, s.copula_instance_property,
        s.copula_implication_predictive, s.copula_implication_concurrent, s.copula_implication_retrospective,
        s.copula_equivalence_predictive, s.copula_equivalence_concurrent, s.copula_equivalence_retrospective,
    ]));
    assert!(reachable_in_order(&[
        c.connecter_conjunction, c.connecter_disjunction, c.connecter_negation,
        c.connecter_conjunction_sequential, c.connecter_conjunction_parallel,
        c.connecter_intersection_extension, c.connecter_intersection_intension,
        c.connecter_difference_extension, c.connecter_difference_intension, c.connecter_product,
        c.connecter_image_extension, c.connecter_image_intension,
    ]));
    assert!(reachable_in_order(&[
        a.prefix_placeholder, a.prefix_variable_independent, a.prefix_variable_dependent,
        a.prefix_variable_query, a.prefix_interval, a.prefix_operator, a.prefix_word,
    ]));
    assert!(reachable_in_order(&[c.brackets_set_extension.0, c.brackets_set_intension.0, c.brackets.0, s.brackets.0]));
}

#[kani::proof]
#[kani::unwind(80)]
fn enum_format_ascii_side_conditions() { check_format(&FORMAT_ASCII); }
#[kani::proof]
#[kani::unwind(80)]
fn enum_format_latex_side_conditions() { check_format(&FORMAT_LATEX); }
#[kani::proof]
#[kani::unwind(80)]
fn enum_format_han_side_conditions() { check_format(&FORMAT_HAN); }

/// C01 (vocabulary side of the round trip): an atom name ends where a copula starts (the enum
/// parser's look-ahead), so a copula that consists of NAME CHARACTERS followed by another copula is
/// ambiguous after an atom: a name that ends in those characters, followed by the shorter copula,
/// is read as the shorter name followed by the longer copula (`<name+P> A <x>` and `<name> P+A <x>`
/// are the same text whenever no space is written between terms).  For the j-th copula A of the
/// format: no other copula of the format is P + A with P a non-empty run of name characters.
fn copula_not_a_name_suffix_tail(f: &NarseseFormat<&str>, j: usize) -> bool {
    let cs = f.copulas();
    let a = cs[j];
    let mut i = 0;
    while i < cs.len() {
        let b = cs[i];
        if i != j && b.len() > a.len() && b.ends_with(a) {
            // the part of b before a: all name characters?
            let p = &b[..b.len() - a.len()];
            let mut all_name = true;
            for ch in p.chars() {
                if !(f.is_valid_atom_name)(ch) {
                    all_name = false;
                }
            }
            if all_name {
                return false;
            }
        }
        i += 1;
    }
    true
}
/// only formats that write NO space between a subject and the copula are exposed: with a space
/// (which is not a name character) the name ends before the copula is looked at
fn check_copula_overlap(f: &NarseseFormat<&str>) {
    // what can follow an atom name directly must not be a name character (else the name swallows it):
    // the separator, the four closing brackets, the punctuations
    let first_is_name = |kw: &str| match kw.chars().next() { Some(c) => (f.is_valid_atom_name)(c), None => false };
    assert!(!first_is_name(f.compound.separator), "the separator does not start with a name character");
    assert!(!first_is_name(f.compound.brackets.1), "the closing compound bracket does not start with a name character");
    assert!(!first_is_name(f.compound.brackets_set_extension.1), "the closing extension-set bracket does not start with a name character");
    assert!(!first_is_name(f.compound.brackets_set_intension.1), "the closing intension-set bracket does not start with a name character");
    assert!(!first_is_name(f.statement.brackets.1), "the closing statement bracket does not start with a name character");
    assert!(!first_is_name(f.sentence.punctuation_judgement), "the judgement mark does not start with a name character");
    assert!(!first_is_name(f.sentence.punctuation_goal), "the goal mark does not start with a name character");
    assert!(!first_is_name(f.sentence.punctuation_question), "the question mark does not start with a name character");
    assert!(!first_is_name(f.sentence.punctuation_quest), "the quest mark does not start with a name character");
    if !f.space.format_terms.is_empty() {
        let first = f.space.format_terms.chars().next().unwrap();
        assert!(!(f.is_valid_atom_name)(first), "the term-level space starts with a non-name character");
        return;
    }
    // one path per copula (a failed assertion ends its path: each is reported on its own)
    let j: usize = kani::any();
    kani::assume(j < 13);
    match j {
        0 => assert!(copula_not_a_name_suffix_tail(f, 0), "no copula is name characters + the inheritance copula"),
        1 => assert!(copula_not_a_name_suffix_tail(f, 1), "no copula is name characters + the similarity copula"),
        2 => assert!(copula_not_a_name_suffix_tail(f, 2), "no copula is name characters + the implication copula"),
        3 => assert!(copula_not_a_name_suffix_tail(f, 3), "no copula is name characters + the equivalence copula"),
        4 => assert!(copula_not_a_name_suffix_tail(f, 4), "no copula is name characters + the instance copula"),
        5 => assert!(copula_not_a_name_suffix_tail(f, 5), "no copula is name characters + the property copula"),
        6 => assert!(copula_not_a_name_suffix_tail(f, 6), "no copula is name characters + the instance-property copula"),
        7 => assert!(copula_not_a_name_suffix_tail(f, 7), "no copula is name characters + the predictive implication copula"),
        8 => assert!(copula_not_a_name_suffix_tail(f, 8), "no copula is name characters + the concurrent implication copula"),
        9 => assert!(copula_not_a_name_suffix_tail(f, 9), "no copula is name characters + the retrospective implication copula"),
        10 => assert!(copula_not_a_name_suffix_tail(f, 10), "no copula is name characters + the predictive equivalence copula"),
        11 => assert!(copula_not_a_name_suffix_tail(f, 11), "no copula is name characters + the concurrent equivalence copula"),
        12 => assert!(copula_not_a_name_suffix_tail(f, 12), "no copula is name characters + the retrospective equivalence copula"),
        _ => {}
    }
}
#[kani::proof]
#[kani::unwind(80)]
fn copula_overlap_ascii() { check_copula_overlap(&FORMAT_ASCII); }
#[kani::proof]
#[kani::unwind(80)]
fn copula_overlap_latex() { check_copula_overlap(&FORMAT_LATEX); }
#[kani::proof]
#[kani::unwind(80)]
fn copula_overlap_han() { check_copula_overlap(&FORMAT_HAN); }

/// C11 (lexicon part): the ASCII keywords are exactly those of the OpenNARS-compatible lexicon
/// the README refers to (https://github.com/opennars/opennars/wiki/Narsese-Grammar-(Input-Output-Format))
/// and the bracket / separator characters of the README's PEG grammar.  The table below is
/// transcribed from those documents, not from the code.
#[kani::proof]
#[kani::unwind(8)]
fn ascii_vocabulary_is_the_published_lexicon() {
    let f = &FORMAT_ASCII;
    // atoms: word (no prefix), "_" placeholder, $ # ? variables, + interval, ^ operator
    assert!(f.atom.prefix_word == "" && f.atom.prefix_placeholder == "_");
    assert!(f.atom.prefix_variable_independent == "$" && f.atom.prefix_variable_dependent == "#" && f.atom.prefix_variable_query == "?");
    assert!(f.atom.prefix_interval == "+" && f.atom.prefix_operator == "^");
    // compounds: (connecter, t, t) {t, t} [t, t]
    let c = &f.compound;
    assert!(c.brackets.0 == "(" && c.brackets.1 == ")" && c.separator == ",");
    assert!(c.brackets_set_extension.0 == "{" && c.brackets_set_extension.1 == "}");
    assert!(c.brackets_set_intension.0 == "[" && c.brackets_set_intension.1 == "]");
    assert!(c.connecter_intersection_extension == "&" && c.connecter_intersection_intension == "|");
    assert!(c.connecter_difference_extension == "-" && c.connecter_difference_intension == "~");
    assert!(c.connecter_product == "*" && c.connecter_image_extension == "/" && c.connecter_image_intension == "\\");
    assert!(c.connecter_conjunction == "&&" && c.connecter_disjunction == "||" && c.connecter_negation == "--");
    assert!(c.connecter_conjunction_sequential == "&/" && c.connecter_conjunction_parallel == "&|");
    // statements
    let s = &f.statement;
    assert!(s.brackets.0 == "<" && s.brackets.1 == ">");
    assert!(s.copula_inheritance == "-->" && s.copula_similarity == "<->" && s.copula_implication == "==>" && s.copula_equivalence == "<=>");
    assert!(s.copula_instance == "{--" && s.copula_property == "--]" && s.copula_instance_property == "{-]");
    assert!(s.copula_implication_predictive == "=/>" && s.copula_implication_concurrent == "=|>" && s.copula_implication_retrospective == "=\\>");
    assert!(s.copula_equivalence_predictive == "</>" && s.copula_equivalence_concurrent == "<|>" && s.copula_equivalence_retrospective == "<\\>");
    // sentence: . ! ? @   :\: :|: :/: :!N:   %f;c%
    let n = &f.sentence;
    assert!(n.punctuation_judgement == "." && n.punctuation_goal == "!" && n.punctuation_question == "?" && n.punctuation_quest == "@");
    assert!(n.stamp_brackets.0 == ":" && n.stamp_brackets.1 == ":");
    assert!(n.stamp_past == "\\" && n.stamp_present == "|" && n.stamp_future == "/" && n.stamp_fixed == "!");
    assert!(n.truth_brackets.0 == "%" && n.truth_brackets.1 == "%" && n.truth_separator == ";");
    // task: $p;d;q$
    assert!(f.task.budget_brackets.0 == "$" && f.task.budget_brackets.1 == "$" && f.task.budget_separator == ";");
    // spaces
    assert!(f.space.parse == " ");
}


/// C16 (one ingredient of unambiguity): within each group the Typst markup constants are pairwise
/// different, so two different constructors / copulas / punctuations / tenses never share markup.
#[kani::proof]
#[kani::unwind(80)]
fn typst_markup_constants_distinct_within_groups() {
    use narsese::conversion::string::typst_formatter::*;
    assert!(distinct(&[TERM_PREFIX_WORD, TERM_PREFIX_PLACEHOLDER, TERM_PREFIX_I_VAR, TERM_PREFIX_D_VAR, TERM_PREFIX_Q_VAR, TERM_PREFIX_INTERVAL, TERM_PREFIX_OPERATOR]));
    assert!(distinct(&[CONNECTER_EXT_INTERSECT, CONNECTER_INT_INTERSECT, CONNECTER_EXT_DIFFERENCE, CONNECTER_INT_DIFFERENCE, CONNECTER_PRODUCT,
        CONNECTER_EXT_IMAGE, CONNECTER_INT_IMAGE, CONNECTER_CONJUNCTION, CONNECTER_DISJUNCTION, CONNECTER_NEGATION, CONNECTER_SEQ_CONJUNCTION, CONNECTER_PAR_CONJUNCTION]));
    assert!(distinct(&[COPULA_INHERITANCE, COPULA_SIMILARITY, COPULA_IMPLICATION, COPULA_EQUIVALENCE, COPULA_IMPLICATION_PREDICTIVE,
        COPULA_IMPLICATION_CONCURRENT, COPULA_IMPLICATION_RETROSPECTIVE, COPULA_EQUIVALENCE_PREDICTIVE, COPULA_EQUIVALENCE_CONCURRENT]));
    assert!(distinct(&[PUNCTUATION_JUDGEMENT, PUNCTUATION_GOAL, PUNCTUATION_QUESTION, PUNCTUATION_QUEST]));
    assert!(distinct(&[STAMP_ETERNAL, STAMP_PAST, STAMP_PRESENT, STAMP_FUTURE, STAMP_FIXED]));
    // "layout by arity": the bracket-only form (empty connecter) is reserved for the two sets, so
    // every connecter and copula constant must be non-empty
    for c in [CONNECTER_EXT_INTERSECT, CONNECTER_INT_INTERSECT, CONNECTER_EXT_DIFFERENCE, CONNECTER_INT_DIFFERENCE, CONNECTER_PRODUCT,
        CONNECTER_EXT_IMAGE, CONNECTER_INT_IMAGE, CONNECTER_CONJUNCTION, CONNECTER_DISJUNCTION, CONNECTER_NEGATION, CONNECTER_SEQ_CONJUNCTION, CONNECTER_PAR_CONJUNCTION,
        COPULA_INHERITANCE, COPULA_SIMILARITY, COPULA_IMPLICATION, COPULA_EQUIVALENCE, COPULA_IMPLICATION_PREDICTIVE,
        COPULA_IMPLICATION_CONCURRENT, COPULA_IMPLICATION_RETROSPECTIVE, COPULA_EQUIVALENCE_PREDICTIVE, COPULA_EQUIVALENCE_CONCURRENT] {
        assert!(!c.is_empty());
    }
    assert!(BRACKETS_EXT_SET.0 != BRACKETS_INT_SET.0 && BRACKETS_COMPOUND.0 != BRACKETS_STATEMENT.0
        && BRACKETS_COMPOUND.0 != BRACKETS_EXT_SET.0 && BRACKETS_COMPOUND.0 != BRACKETS_INT_SET.0);
}
