#!/usr/bin/env python3
"""regenerate MANIFEST.json from contracts/props.json + contracts/not_applicable.json"""
import json, os
ROOT = os.path.dirname(os.path.dirname(os.path.abspath(__file__)))
props = json.load(open(os.path.join(ROOT, "contracts", "props.json"), encoding="utf-8"))
na = json.load(open(os.path.join(ROOT, "contracts", "not_applicable.json"), encoding="utf-8"))
all_ids = [json.loads(l)["id"] for l in open(os.path.join(ROOT, "properties.jsonl"), encoding="utf-8") if l.strip()]
checks = []
for pid in all_ids:
    if pid not in props:
        continue
    c = props[pid]
    tech = []
    if c.get("verus_units"):
        tech.append("Verus contracts (requires/ensures/invariant/decreases) on functions extracted from /repo each run; units: " + ", ".join(c["verus_units"]))
    if c.get("kani"):
        tech.append("Kani/CBMC harnesses on the real crate: " + ", ".join(h["name"] + (" [bounded]" if h.get("bounded") else "") for h in c["kani"]))
    checks.append({
        "property_id": pid,
        "quick_cmd": "./check %s --tier quick" % pid,
        "thorough_cmd": "./check %s --tier thorough" % pid,
        "evidence_file": "evidence/%s.json" % pid,
        "replay_cmd_template": "./check --replay {path}",
        "engine": "verus+kani" if c.get("kani") and c.get("verus_units") else ("kani" if c.get("kani") else "verus"),
        "level_claimed": {"category": c.get("level", "proof"), "text": c["explanation"], "design_ref": "DESIGN.md section 4, " + pid},
        "level_note": "; ".join(c.get("assumptions", [])) + ((" | NOT decided: " + "; ".join(c["not_decided"])) if c.get("not_decided") else "") + ((" | bounded parts: " + "; ".join(c["bounded_parts"])) if c.get("bounded_parts") else ""),
        "technique": "contract-based deductive verification: " + " + ".join(tech),
    })
m = {
    "version": 1,
    "setup_cmd": "./setup.sh",
    "hooks": {"guard": "narsese_verif", "enable": "none needed: contracts live in /verif and are spliced into functions extracted from /repo at check time; Kani harnesses depend on the crate by path=/repo",
              "baseline_off_cmd": "cd /repo && cargo test --workspace --no-fail-fast --offline", "source_commits": [], "add_only": True},
    "engines": [
        {"name": "verus", "path": "check (extract/gen.py, contracts/*/unit.vspec)", "serves_properties": [p for p in all_ids if p in props and props[p].get("verus_units")], "kind_free_text": "Verus 0.2026.09.13 on functions extracted mechanically from /repo on every run"},
        {"name": "kani", "path": "kani/", "serves_properties": [p for p in all_ids if p in props and props[p].get("kani")], "kind_free_text": "Kani 0.68 / CBMC 6.11 harnesses compiled against the real crate (path dependency on /repo)"},
    ],
    "checks": checks,
    "notes": "exit 2 + 'UNDECIDED' means the machinery could not decide (lost anchor, construct Verus rejects, solver limit); it is never reported as a violation. /repo carries fix: commits for the genuine defects found (see known_findings.json).",
    "not_applicable": [{"property_id": p, "reason": na[p]} for p in all_ids if p not in props],
}
missing = [p for p in all_ids if p not in props and p not in na]
assert not missing, missing
json.dump(m, open(os.path.join(ROOT, "MANIFEST.json"), "w", encoding="utf-8"), indent=1, ensure_ascii=False)
print("MANIFEST.json written:", len(checks), "checks,", len(m["not_applicable"]), "not applicable")
