#!/usr/bin/env python3
"""Developer aid: run the C01 check against the stored seeded changes of OTHER properties that touch
the enum formatter / parser / tables / term model (a change that breaks their property there very
often breaks the enum round trip too), and record the outcome in the seed's meta.json
("c01_evaluation"; "detected_by" gains C01 when the check raises the alarm).

  tools/c01_reeval.py <worktree> <part> <parts>      (seed list split round-robin into <parts>)
"""
import json, os, subprocess, sys, time
ROOT = os.path.dirname(os.path.dirname(os.path.abspath(__file__)))
wt, part, parts = sys.argv[1], int(sys.argv[2]), int(sys.argv[3])
FILES = ("src/conversion/string/impl_enum/formatter.rs", "src/conversion/string/impl_enum/parser.rs",
         "src/conversion/string/impl_enum/format_instances.rs", "src/conversion/string/impl_enum/format.rs",
         "src/enum_narsese/term/impls.rs", "src/conversion/string/common/common_narsese_templates.rs")
env = dict(os.environ, CARGO_NET_OFFLINE="true", VERIF_REPO=wt)
sel = []
for sid in sorted(os.listdir(os.path.join(ROOT, "seeded"))):
    d = os.path.join(ROOT, "seeded", sid)
    pf = os.path.join(d, "patch.diff")
    if not os.path.isfile(pf) or sid.startswith("C01-"):
        continue
    txt = open(pf, encoding="utf-8", errors="replace").read()
    if any(("+++ b/" + f) in txt for f in FILES):
        sel.append(sid)
if os.environ.get("C01_SEEDS"):      # explicit list (C01's own seeds included)
    sel = os.environ["C01_SEEDS"].split()
sel = sel[part::parts]
print("selected", len(sel), flush=True)
for sid in sel:
    d = os.path.join(ROOT, "seeded", sid)
    meta = json.load(open(os.path.join(d, "meta.json")))
    subprocess.run(["git", "checkout", "-q", "--", "."], cwd=wt)
    r = subprocess.run(["git", "apply", os.path.join(d, "patch.diff")], cwd=wt, capture_output=True, text=True)
    if r.returncode != 0:
        print(sid, "PATCH DOES NOT APPLY"); continue
    t0 = time.time()
    c = subprocess.run([os.path.join(ROOT, "check"), "C01"], cwd=ROOT, env=env, capture_output=True, text=True)
    lines = [l for l in (c.stdout + c.stderr).split("\n") if l.startswith(("VIOLATION", "UNDECIDED", "OK "))]
    subprocess.run(["git", "checkout", "-q", "--", "."], cwd=wt)
    meta["c01_evaluation"] = {"exit": c.returncode, "first_line": (lines[0][:300] if lines else ""), "wall_s": round(time.time() - t0, 1),
                              "verif_head": subprocess.run(["git", "rev-parse", "--short", "HEAD"], cwd=ROOT, capture_output=True, text=True).stdout.strip()}
    db = [p for p in meta.get("detected_by", []) if p != "C01"]
    if c.returncode == 1:
        db.append("C01")
    meta["detected_by"] = db
    json.dump(meta, open(os.path.join(d, "meta.json"), "w"), indent=1, ensure_ascii=False)
    print(sid, meta.get("kind", ""), c.returncode, flush=True)
