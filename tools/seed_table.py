#!/usr/bin/env python3
"""print the markdown table of DESIGN.md section 7 from seeded/*/meta.json"""
import json, os, sys
ROOT = os.path.dirname(os.path.dirname(os.path.abspath(__file__)))
rows = []
for sid in sorted(os.listdir(os.path.join(ROOT, "seeded"))):
    mp = os.path.join(ROOT, "seeded", sid, "meta.json")
    if not os.path.isfile(mp):
        continue
    m = json.load(open(mp, encoding="utf-8"))
    summ = " ".join(m.get("summary", "").split())
    if len(summ) > 170:
        summ = summ[:167] + "..."
    det = m.get("detected_by", [])
    und = m.get("undecided_by", [])
    res = m.get("last_evaluation", {}).get("results") or m.get("confirmed_by_me", {}).get("checks_against_change", {})
    ran_set = set(res.keys())
    if "c01_evaluation" in m:      # tools/c01_reeval.py: the C01 check run against this change as well
        ran_set.add("C01")
        if m["c01_evaluation"].get("exit") == 2 and "C01" not in und and not det:
            und = list(und) + ["C01"]
    ran = ", ".join(sorted(ran_set))
    if sid.startswith("benign"):
        verdict = "**FALSE ALARM** under " + ", ".join(det) if det else ("exit 2 (undecided) under " + ", ".join(und) if und else "exit 0: still verified")
    elif det:
        verdict = "**caught** by " + ", ".join(det)
    elif und:
        verdict = "undecided (exit 2) under " + ", ".join(und)
    else:
        verdict = "**missed**"
    why = m.get("note", "")
    rows.append("| %s | %s | %s | %s | %s |" % (sid, summ.replace("|", "\\|"), ran, verdict, why))
print("| seed | change | checks run | outcome | note |")
print("|---|---|---|---|---|")
print("\n".join(rows))
