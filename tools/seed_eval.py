#!/usr/bin/env python3
"""Developer aid: confirm a sub-agent's seeded change and run the checks against it.

  tools/seed_eval.py <worktree> <k> <Cxx> [more property ids to run ...]

1. in the scratch worktree (clean): apply _out/k/patch.diff; full existing suite must pass;
   demo must fail; revert; demo must pass.
2. with the patch applied in the worktree, run ./check <ids> with VERIF_REPO=<worktree>.
3. store everything under /verif/seeded/<Cxx>-<k>/ (patch.diff, demo.rs, meta.json).
"""
import json, os, shutil, subprocess, sys, time
ROOT = os.path.dirname(os.path.dirname(os.path.abspath(__file__)))
wt, k, pid = sys.argv[1], sys.argv[2], sys.argv[3]
extra = sys.argv[4:]
out = os.path.join(wt, "_out", k)
env = dict(os.environ, CARGO_NET_OFFLINE="true")

def run(cmd, cwd=wt, timeout=3000, e=None):
    p = subprocess.run(cmd, cwd=cwd, env=e or env, capture_output=True, text=True, timeout=timeout)
    return p.returncode, p.stdout + p.stderr

def git_clean():
    run(["git", "checkout", "--", "."])
    shutil.rmtree(os.path.join(wt, "tests"), ignore_errors=True)

res = {"ran": []}
git_clean()
rc, o = run(["git", "apply", "--check", os.path.join(out, "patch.diff")])
res["patch_applies"] = rc == 0
if rc != 0:
    print(json.dumps(res)); sys.exit(1)
run(["git", "apply", os.path.join(out, "patch.diff")])
rc, o = run(["cargo", "test", "--offline", "--no-fail-fast"])
res["existing_tests_pass_with_change"] = rc == 0
res["existing_tests_tail"] = "\n".join(l for l in o.split("\n") if l.startswith("test result"))
res["ran"].append("cargo test --offline (patched worktree)")
os.makedirs(os.path.join(wt, "tests"), exist_ok=True)
shutil.copy(os.path.join(out, "demo.rs"), os.path.join(wt, "tests", "demo.rs"))
rc, o = run(["cargo", "test", "--offline", "--test", "demo"], timeout=600)
res["demo_fails_with_change"] = rc != 0
res["ran"].append("cargo test --offline --test demo (patched)")
# checks against the patched worktree
shutil.rmtree(os.path.join(wt, "tests"), ignore_errors=True)
det = {}
for p in [pid] + extra:
    t0 = time.time()
    e = dict(env, VERIF_REPO=wt)
    rc, o = run([os.path.join(ROOT, "check"), p], cwd=ROOT, e=e, timeout=3000)
    lines = [l for l in o.split("\n") if l.startswith(("VIOLATION", "UNDECIDED", "OK", "KNOWN"))]
    det[p] = {"exit": rc, "lines": lines, "wall_s": round(time.time() - t0, 1)}
    # keep the replay files of the first violation for reference
res["checks_against_change"] = det
res["ran"].append("VERIF_REPO=<patched worktree> ./check " + " ".join([pid] + extra))
# revert and run demo on clean tree
run(["git", "checkout", "--", "."])
os.makedirs(os.path.join(wt, "tests"), exist_ok=True)
shutil.copy(os.path.join(out, "demo.rs"), os.path.join(wt, "tests", "demo.rs"))
rc, o = run(["cargo", "test", "--offline", "--test", "demo"], timeout=600)
res["demo_passes_without_change"] = rc == 0
res["ran"].append("cargo test --offline --test demo (clean)")
git_clean()
# store
dst = os.path.join(ROOT, "seeded", "%s-%s" % (pid, int(k) + int(os.environ.get("SEED_OFFSET", "0"))))
os.makedirs(dst, exist_ok=True)
shutil.copy(os.path.join(out, "patch.diff"), os.path.join(dst, "patch.diff"))
shutil.copy(os.path.join(out, "demo.rs"), os.path.join(dst, "demo.rs"))
meta = json.load(open(os.path.join(out, "meta.json")))
meta["confirmed_by_me"] = res
meta["detected_by"] = [p for p, d in det.items() if d["exit"] == 1]
meta["undecided_by"] = [p for p, d in det.items() if d["exit"] == 2]
if extra:
    meta["also_check"] = extra
json.dump(meta, open(os.path.join(dst, "meta.json"), "w"), indent=1, ensure_ascii=False)
print(pid, k, "tests_pass=%s demo_fail=%s demo_pass_clean=%s" % (res["existing_tests_pass_with_change"], res["demo_fails_with_change"], res["demo_passes_without_change"]),
      {p: (d["exit"], d["lines"][:2]) for p, d in det.items()})
