#!/usr/bin/env python3
"""Re-run the checks against every stored seeded change (seeded/<id>/patch.diff).

  tools/reeval_seeds.py <worktree> [<seed-id> ...]      (no ids = all)

The patch is applied in the given scratch worktree of /repo, `VERIF_REPO=<worktree> ./check <ids>`
is run for the seed's own property plus the extra properties listed in its meta.json
("also_check"), the worktree is restored.  Results go to seeded/<id>/meta.json
("last_evaluation") and are printed.
"""
import json, os, subprocess, sys, time
ROOT = os.path.dirname(os.path.dirname(os.path.abspath(__file__)))
args = [a for a in sys.argv[1:] if a != "--lazy"]
LAZY = "--lazy" in sys.argv     # stop at the first check that raises the alarm (own property first)
wt = args[0]
ids = args[1:] or sorted(os.listdir(os.path.join(ROOT, "seeded")))
env = dict(os.environ, CARGO_NET_OFFLINE="true", VERIF_REPO=wt)
for sid in ids:
    d = os.path.join(ROOT, "seeded", sid)
    if not os.path.isfile(os.path.join(d, "patch.diff")):
        continue
    meta = json.load(open(os.path.join(d, "meta.json")))
    subprocess.run(["git", "checkout", "-q", "--", "."], cwd=wt)
    r = subprocess.run(["git", "apply", os.path.join(d, "patch.diff")], cwd=wt, capture_output=True, text=True)
    if r.returncode != 0:
        print(sid, "PATCH DOES NOT APPLY", r.stderr[:200]); continue
    props = [meta["property"]] + [p for p in meta.get("also_check", []) if p != meta["property"]]
    res = {}
    for p in props:
        t0 = time.time()
        c = subprocess.run([os.path.join(ROOT, "check"), p], cwd=ROOT, env=env, capture_output=True, text=True)
        lines = [l for l in (c.stdout + c.stderr).split("\n") if l.startswith(("VIOLATION", "UNDECIDED", "OK "))]
        res[p] = {"exit": c.returncode, "first_line": (lines[0][:300] if lines else ""), "wall_s": round(time.time() - t0, 1)}
        if LAZY and c.returncode == 1 and meta.get("kind") != "benign":
            break
    subprocess.run(["git", "checkout", "-q", "--", "."], cwd=wt)
    meta["last_evaluation"] = {"repo_head": subprocess.run(["git", "rev-parse", "--short", "HEAD"], cwd=wt, capture_output=True, text=True).stdout.strip(),
                               "verif_head": subprocess.run(["git", "rev-parse", "--short", "HEAD"], cwd=ROOT, capture_output=True, text=True).stdout.strip(),
                               "results": res}
    meta["detected_by"] = [p for p, x in res.items() if x["exit"] == 1]
    meta["undecided_by"] = [p for p, x in res.items() if x["exit"] == 2]
    json.dump(meta, open(os.path.join(d, "meta.json"), "w"), indent=1, ensure_ascii=False)
    print(sid, {p: x["exit"] for p, x in res.items()}, flush=True)
