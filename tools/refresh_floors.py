#!/usr/bin/env python3
"""set min_obligations of every property to 85% of the obligation count in its current evidence file"""
import json, os
ROOT = os.path.dirname(os.path.dirname(os.path.abspath(__file__)))
p = os.path.join(ROOT, "contracts", "props.json")
d = json.load(open(p, encoding="utf-8"))
for pid, c in d.items():
    ev = os.path.join(ROOT, "evidence", pid + ".json")
    if os.path.exists(ev):
        e = json.load(open(ev, encoding="utf-8"))
        # (a known finding leaves its obligation undischarged without being a violation)
        if e.get("violations", 0) == 0 and e["coverage"]["obligations"] - e["coverage"]["discharged"] <= len(e.get("known_findings", []) or [1]):
            c["min_obligations"] = int(e["coverage"]["obligations"] * 0.85)
json.dump(d, open(p, "w", encoding="utf-8"), indent=1, ensure_ascii=False)
print({k: v.get("min_obligations") for k, v in d.items()})
